#!/usr/bin/env python3
"""Offline exact checker of the C06 event log.

usage: hypergeom_exact.py <events.jsonl> <max unique tuples>
Every logged enrichment record (kind, N, K, n, k, count, p, fold) is recomputed with exact
integers: p = sum_{i>=k} C(K,i) C(N-K,n-i) / C(N,n), fold = (k/n)/(K/N).
Prints 'MISMATCH <site> <detail>' lines and one 'SUMMARY <json>' line.
"""
import json, math, sys
from fractions import Fraction

def main():
    path, cap = sys.argv[1], int(sys.argv[2])
    seen = {}
    total = 0
    with open(path) as fh:
        for line in fh:
            line = line.strip()
            if not line:
                continue
            total += 1
            e = json.loads(line)
            key = (e["N"], e["K"], e["n"], e["k"])
            # keep every distinct observed (p, fold, count) for the tuple: the library must be a function of the tuple
            seen.setdefault(key, set()).add((e["p"], e["fold"], e["count"], e["kind"]))
    keys = sorted(seen.keys())
    # deterministic thinning if there are more tuples than the cap allows
    if len(keys) > cap:
        step = len(keys) / cap
        keys = [keys[int(i * step)] for i in range(cap)]
    mismatches = 0
    checked = 0
    big = 0
    for (N, K, n, k) in keys:
        denom = math.comb(N, n)
        hi = min(K, n)
        num = 0
        for i in range(k, hi + 1):
            num += math.comb(K, i) * math.comb(N - K, n - i)
        exact = Fraction(num, denom)
        fold = Fraction(k * N, n * K)
        if N > 170:
            big += 1
        for (p, f, count, kind) in seen[(N, K, n, k)]:
            checked += 1
            ok = True
            if exact == 0:
                ok = p == 0.0
            else:
                ex = float(exact) if exact > Fraction(1, 10**300) else 0.0
                if ex > 0.0:
                    ok = abs(p - ex) <= 1e-9 * ex + 1e-300
                else:
                    # compare in log space
                    lex = math.log(exact.numerator) - math.log(exact.denominator)
                    ok = p >= 0.0 and (p == 0.0 or abs(math.log(p) - lex) <= 1e-6)
            if not ok and mismatches < 20:
                print(f"MISMATCH pvalue/{kind} (N={N},K={K},n={n},k={k}): library p={p!r}, exact={float(exact)!r}")
            if not ok:
                mismatches += 1
            if not (0.0 <= p <= 1.0 + 1e-9):
                mismatches += 1
                print(f"MISMATCH pvalue_range/{kind} (N={N},K={K},n={n},k={k}): p={p!r}")
            fe = float(fold)
            if abs(f - fe) > 1e-9 * abs(fe):
                mismatches += 1
                if mismatches < 20:
                    print(f"MISMATCH fold/{kind} (N={N},K={K},n={n},k={k}): library fold={f!r}, exact={fe!r}")
            if count != k:
                mismatches += 1
                print(f"MISMATCH count/{kind} (N={N},K={K},n={n},k={k}): count={count}")
    print("SUMMARY " + json.dumps({
        "events_in_log": total,
        "unique_tuples_in_log": len(seen),
        "unique_tuples_checked_exactly": len(keys),
        "observations_checked": checked,
        "tuples_with_N_above_170": big,
        "mismatches": mismatches,
    }))

main()
