//! Reference model: deliberately naive algorithms over the FactSet.

use crate::facts::FactSet;
use crate::observe::{Obs, RecObs, TermObs};
use std::collections::{BTreeMap, BTreeSet, VecDeque};

pub type Set = BTreeSet<u32>;

#[derive(Clone, Debug, Default)]
pub struct Model {
    pub ids: Set,
    pub parents: BTreeMap<u32, Set>,
    pub children: BTreeMap<u32, Set>,
    pub anc: BTreeMap<u32, Set>,
    pub desc: BTreeMap<u32, Set>,
    /// record -> direct terms, per kind
    pub direct: [BTreeMap<u32, Set>; 3],
    /// term -> linked records (direct on the term or on a descendant), per kind
    pub links: [BTreeMap<u32, Set>; 3],
    /// number of records per kind
    pub n: [usize; 3],
    pub modifier_roots: Set,
    pub categories: Set,
}

fn bfs(start: u32, next: &BTreeMap<u32, Set>) -> Set {
    let mut seen = Set::new();
    let mut q = VecDeque::new();
    q.push_back(start);
    while let Some(x) = q.pop_front() {
        if let Some(ns) = next.get(&x) {
            for n in ns {
                if seen.insert(*n) {
                    q.push_back(*n);
                }
            }
        }
    }
    seen
}

impl Model {
    /// `defaults`: compute modifier roots / categories from HP:1 and HP:118
    pub fn new(f: &FactSet, defaults: bool) -> Model {
        let mut m = Model {
            ids: f.term_ids(),
            ..Default::default()
        };
        for id in &m.ids {
            m.parents.insert(*id, Set::new());
            m.children.insert(*id, Set::new());
        }
        for (c, p) in &f.edges {
            m.parents.entry(*c).or_default().insert(*p);
            m.children.entry(*p).or_default().insert(*c);
        }
        for id in &m.ids {
            m.anc.insert(*id, bfs(*id, &m.parents));
            m.desc.insert(*id, bfs(*id, &m.children));
        }
        // cross-audit of the closure: transposed descendant relation must equal the ancestor relation
        for (t, a) in &m.anc {
            for x in a {
                assert!(
                    m.desc.get(x).is_some_and(|d| d.contains(t)),
                    "model self-audit: anc/desc not transposes"
                );
            }
        }
        for (t, d) in &m.desc {
            for x in d {
                assert!(
                    m.anc.get(x).is_some_and(|a| a.contains(t)),
                    "model self-audit: desc/anc not transposes"
                );
            }
        }
        for k in 0..3 {
            for id in &m.ids {
                m.links[k].insert(*id, Set::new());
            }
            for r in &f.recs[k] {
                let e = m.direct[k].entry(r.id).or_default();
                for t in &r.terms {
                    e.insert(*t);
                }
            }
            m.n[k] = m.direct[k].len();
            // formulation A (upward): record r is linked to every direct term d and to every ancestor of d
            let mut up: BTreeMap<u32, Set> = m.ids.iter().map(|t| (*t, Set::new())).collect();
            for (r, ts) in &m.direct[k] {
                for d in ts {
                    if let Some(e) = up.get_mut(d) {
                        e.insert(*r);
                    }
                    if let Some(anc) = m.anc.get(d) {
                        for a in anc {
                            if let Some(e) = up.get_mut(a) {
                                e.insert(*r);
                            }
                        }
                    }
                }
            }
            // formulation B (downward, the statement's wording): term t is linked to record r iff r is
            // directly annotated to t or to a descendant of t. Quadratic, so only used – as a
            // cross-audit of A – on small cases.
            if m.ids.len() <= 200 {
                for t in &m.ids {
                    let mut below = m.desc[t].clone();
                    below.insert(*t);
                    let mut l = Set::new();
                    for (r, ts) in &m.direct[k] {
                        if ts.iter().any(|x| below.contains(x)) {
                            l.insert(*r);
                        }
                    }
                    assert!(l == up[t], "model self-audit: upward and downward link formulations disagree");
                }
            }
            m.links[k] = up;
        }
        if defaults && m.ids.contains(&1) && m.ids.contains(&118) {
            m.modifier_roots = m.children[&1].iter().copied().filter(|c| *c != 118).collect();
            m.categories = m.modifier_roots.clone();
            for c in &m.children[&118] {
                m.categories.insert(*c);
            }
        }
        m
    }

    pub fn ic(&self, kind: usize, term: u32) -> f64 {
        let n = self.links[kind][&term].len();
        let total = self.n[kind];
        if n == 0 || total == 0 {
            0.0
        } else {
            -((n as f64) / (total as f64)).ln()
        }
    }

    pub fn self_and_anc(&self, t: u32) -> Set {
        let mut s = self.anc[&t].clone();
        s.insert(t);
        s
    }

    pub fn is_modifier(&self, t: u32) -> bool {
        self.self_and_anc(t)
            .iter()
            .any(|x| self.modifier_roots.contains(x))
    }

    pub fn term_categories(&self, t: u32) -> Vec<u32> {
        self.self_and_anc(t)
            .into_iter()
            .filter(|x| self.categories.contains(x))
            .collect()
    }

    /// BFS up-distances from `t` to every ancestor (and itself = 0)
    pub fn up_dist(&self, t: u32) -> BTreeMap<u32, usize> {
        let mut d = BTreeMap::new();
        d.insert(t, 0usize);
        let mut q = VecDeque::new();
        q.push_back(t);
        while let Some(x) = q.pop_front() {
            let dx = d[&x];
            for p in &self.parents[&x] {
                if !d.contains_key(p) {
                    d.insert(*p, dx + 1);
                    q.push_back(*p);
                }
            }
        }
        d
    }

    /// min over common ancestors (terms included) of the summed up-distances
    pub fn term_dist(&self, a: u32, b: u32) -> Option<usize> {
        let da = self.up_dist(a);
        let db = self.up_dist(b);
        da.iter()
            .filter_map(|(c, x)| db.get(c).map(|y| x + y))
            .min()
    }

    /// Number of distinct upward chains from `t` to each ancestor, saturating. Used by generators
    /// to keep the library's un-memoised path recursion affordable.
    pub fn max_path_count(&self, cap: u64) -> u64 {
        // count[t][a] = number of chains t -> a ; computed by DFS with memo on t
        let mut memo: BTreeMap<u32, BTreeMap<u32, u64>> = BTreeMap::new();
        fn rec(
            m: &Model,
            t: u32,
            memo: &mut BTreeMap<u32, BTreeMap<u32, u64>>,
            cap: u64,
        ) -> BTreeMap<u32, u64> {
            if let Some(x) = memo.get(&t) {
                return x.clone();
            }
            let mut res: BTreeMap<u32, u64> = BTreeMap::new();
            for p in &m.parents[&t] {
                *res.entry(*p).or_insert(0) += 1;
                let up = rec(m, *p, memo, cap);
                for (a, c) in up {
                    let e = res.entry(a).or_insert(0);
                    *e = (*e + c).min(cap);
                }
            }
            memo.insert(t, res.clone());
            res
        }
        let mut mx = 0;
        for t in &self.ids {
            let r = rec(self, *t, &mut memo, cap);
            for c in r.values() {
                mx = mx.max(*c);
            }
        }
        mx
    }

    /// Expected observation for a FactSet built with (`defaults`) or without default categories
    pub fn expected_obs(&self, f: &FactSet, version: &str) -> Obs {
        let mut o = Obs {
            version: version.to_string(),
            len: self.ids.len(),
            ..Default::default()
        };
        o.categories = self.categories.iter().copied().collect();
        o.modifier = self.modifier_roots.iter().copied().collect();
        for t in &f.terms {
            if o.terms.contains_key(&t.id) {
                continue; // first fact for an id wins (duplicates are not generated by default)
            }
            let id = t.id;
            let to = TermObs {
                id,
                name: t.name.clone(),
                obsolete: t.obsolete,
                replacement: t.replaced_by,
                parents: self.parents[&id].iter().copied().collect(),
                children: self.children[&id].iter().copied().collect(),
                ancestors: self.anc[&id].iter().copied().collect(),
                links: [
                    self.links[0][&id].iter().copied().collect(),
                    self.links[1][&id].iter().copied().collect(),
                    self.links[2][&id].iter().copied().collect(),
                ],
                ic: [
                    self.ic(0, id) as f32,
                    self.ic(1, id) as f32,
                    self.ic(2, id) as f32,
                ],
                is_modifier: self.is_modifier(id),
                categories: self.term_categories(id),
            };
            o.terms.insert(id, to);
        }
        for k in 0..3 {
            for r in &f.recs[k] {
                if o.recs[k].contains_key(&r.id) {
                    continue; // first name wins
                }
                o.recs[k].insert(
                    r.id,
                    RecObs {
                        id: r.id,
                        name: r.name.clone(),
                        terms: self.direct[k][&r.id].iter().copied().collect(),
                    },
                );
            }
        }
        o
    }
}
