//! Renderer for the JAX text formats: hp.obo, phenotype.hpoa, genes_to_phenotype.txt,
//! phenotype_to_genes.txt — including noise rows that must be ignored.

use crate::facts::FactSet;
use crate::rng::Rng;
use std::collections::BTreeMap;
use std::fmt::Write as _;
use std::path::Path;

#[derive(Clone, Debug)]
pub struct JaxOpts {
    pub shuffle: bool,
    pub noise: bool,
    /// 0: "ncbi_gene_id..." header, 1: "#..." header, 2: "hpo_id..." header
    pub gene_header_style: u8,
}

pub fn hp(id: u32) -> String {
    format!("HP:{id:07}")
}

/// Facts expressible in the text formats: records without terms cannot be written
pub fn jax_view(f: &FactSet) -> FactSet {
    let mut v = f.clone();
    for k in 0..3 {
        v.recs[k].retain(|r| !r.terms.is_empty());
    }
    v
}

pub fn render_obo(f: &FactSet, rng: &mut Rng, o: &JaxOpts) -> String {
    let names: BTreeMap<u32, &str> = f.terms.iter().map(|t| (t.id, t.name.as_str())).collect();
    let mut parents: BTreeMap<u32, Vec<u32>> = BTreeMap::new();
    for (c, p) in &f.edges {
        parents.entry(*c).or_default().push(*p);
    }
    let mut stanzas: Vec<String> = Vec::new();
    for t in &f.terms {
        let mut s = String::from("[Term]\n");
        let mut lines: Vec<String> = Vec::new();
        lines.push(format!("id: {}", hp(t.id)));
        // tag order inside a stanza is free: in some noisy stanzas the name is the last tag
        let name_last = o.noise && rng.chance(1, 5);
        if !name_last {
            lines.push(format!("name: {}", t.name));
        }
        if o.noise {
            if rng.chance(1, 2) {
                lines.push(format!("alt_id: {}", hp(rng.range(1, 9_999_999) as u32)));
            }
            if rng.chance(1, 2) {
                lines.push("def: \"Some definition: with a colon.\" [HPO:probinson]".to_string());
            }
            if rng.chance(1, 3) {
                lines.push("comment: name: fake name inside a comment".to_string());
            }
            if rng.chance(1, 3) {
                lines.push("synonym: \"is_a: HP:0000001 ! trap\" EXACT []".to_string());
            }
            if rng.chance(1, 3) {
                lines.push("xref: UMLS:C0043352".to_string());
            }
            if rng.chance(1, 4) {
                lines.push("created_by: id: someone".to_string());
            }
        }
        // the canonical OBO tag order puts is_a BEFORE is_obsolete / replaced_by / consider;
        // half of the stanzas use it, the other half the reverse
        let mut flag_lines: Vec<String> = Vec::new();
        if t.obsolete {
            flag_lines.push("is_obsolete: true".to_string());
        } else if o.noise && rng.chance(1, 8) {
            flag_lines.push("is_obsolete: false".to_string());
        }
        if let Some(r) = t.replaced_by {
            flag_lines.push(format!("replaced_by: {}", hp(r)));
        }
        if o.noise && t.obsolete && rng.chance(1, 2) {
            flag_lines.push(format!("consider: {}", hp(rng.range(1, 9_999_999) as u32)));
        }
        if o.noise && rng.chance(1, 2) {
            // replaced_by / consider before is_obsolete
            flag_lines.reverse();
        }
        let mut ps = parents.get(&t.id).cloned().unwrap_or_default();
        if o.shuffle {
            rng.shuffle(&mut ps);
        }
        // an is_a tag may carry a trailing modifier block (axiom annotations) between the id and the comment
        let mut isa_lines: Vec<String> = ps
            .iter()
            .map(|p| {
                let modifier = if o.noise && rng.chance(1, 6) {
                    *rng.pick(&[" {source=\"PMID:1234\"}", " {source=\"PMID:1\", source=\"ORCID:0000-0001\"}", " {is_inferred=\"true\"}"])
                } else {
                    ""
                };
                format!("is_a: {}{modifier} ! {}", hp(*p), names.get(p).copied().unwrap_or("?"))
            })
            .collect();
        if o.noise && isa_lines.len() >= 2 && rng.chance(1, 2) {
            // tag order inside a stanza is free: other tags may sit between two is_a lines
            let mut mixed: Vec<String> = Vec::new();
            for (i, l) in isa_lines.into_iter().enumerate() {
                if i > 0 && rng.chance(1, 2) {
                    mixed.push(
                        (*rng.pick(&[
                            "xref: SNOMEDCT_US:12345",
                            "synonym: \"between two parents\" EXACT []",
                            "subset: hposlim_core",
                            "property_value: http://purl.org/dc/terms/creator \"someone\" xsd:string",
                        ]))
                        .to_string(),
                    );
                }
                mixed.push(l);
            }
            isa_lines = mixed;
        }
        // a term may be described by more than one stanza (merged files): the second stanza repeats id,
        // name and flags and carries some of the is_a tags
        let mut second_stanza: Option<String> = None;
        if o.noise && isa_lines.iter().filter(|l| l.starts_with("is_a:")).count() >= 2 && rng.chance(1, 10) {
            let mut moved: Vec<String> = Vec::new();
            let keep_n = rng.urange(1, isa_lines.iter().filter(|l| l.starts_with("is_a:")).count() - 1);
            let mut seen = 0;
            isa_lines.retain(|l| {
                if l.starts_with("is_a:") {
                    seen += 1;
                    if seen > keep_n {
                        moved.push(l.clone());
                        return false;
                    }
                }
                true
            });
            let mut t2 = String::from("[Term]\n");
            t2.push_str(&format!("id: {}\nname: {}\n", hp(t.id), t.name));
            for l in flag_lines.iter().chain(moved.iter()) {
                t2.push_str(l);
                t2.push('\n');
            }
            second_stanza = Some(t2);
        }
        if rng.chance(1, 2) {
            lines.extend(isa_lines);
            if o.noise && rng.chance(1, 3) {
                lines.push("created_by: someone".to_string());
                lines.push("creation_date: 2012-04-04T02:58:31Z".to_string());
            }
            lines.extend(flag_lines);
        } else {
            lines.extend(flag_lines);
            lines.extend(isa_lines);
        }
        if name_last {
            lines.push(format!("name: {}", t.name));
        }
        if o.noise && rng.chance(1, 8) {
            // ... and the id tag need not be the first one either
            let id_line = lines.remove(0);
            let pos = rng.urange(1, lines.len());
            lines.insert(pos, id_line);
        }
        for l in lines {
            s.push_str(&l);
            s.push('\n');
        }
        stanzas.push(s);
        if let Some(t2) = second_stanza {
            stanzas.push(t2);
        }
    }
    if o.noise {
        stanzas.push(
            "[Typedef]\nid: is_a\nname: is_a: HP:0000001 ! trap\nxref: RO:0000000\nis_transitive: true\n".to_string(),
        );
        stanzas.push("[Typedef]\nid: HP:0000999\nname: typedef that looks like a term\n".to_string());
        // a [Term] stanza without a name is not a term (it is skipped as a whole, links included)
        if rng.chance(1, 2) {
            stanzas.push("[Term]\nid: HP:0000997\nis_a: HP:0000001 ! All\nis_a: HP:0000118 ! Phenotypic abnormality\n".to_string());
        }
        if rng.chance(1, 2) {
            stanzas.push("[Instance]\nid: HP:0000998\nname: an instance stanza\n".to_string());
        }
    }
    if o.shuffle {
        rng.shuffle(&mut stanzas);
    }
    let mut out = String::new();
    // facts without a release version may come as a file without any header block (version 0000-00-00
    // is what the loaders report when no data-version is given)
    if f.version == (0, 0, 0) && rng.chance(1, 2) {
        let mut first = true;
        for s in stanzas {
            if !first {
                out.push('\n');
            }
            first = false;
            out.push_str(&s);
        }
        return out;
    }
    out.push_str("format-version: 1.2\n");
    if o.noise {
        out.push_str("subsetdef: hposlim_core \"Core clinical terminology\"\n");
    }
    let _ = writeln!(
        out,
        "data-version: hp/releases/{:04}-{:02}-{:02}",
        f.version.0, f.version.1, f.version.2
    );
    if o.noise {
        out.push_str("saved-by: someone\ndefault-namespace: human_phenotype\nremark: data-version: hp/releases/1999-09-09\n");
    }
    for s in stanzas {
        out.push('\n');
        out.push_str(&s);
        // a paragraph that is neither the header nor a stanza (OBO comment lines start with '!')
        if o.noise && rng.chance(1, 15) {
            out.push_str("\n! a comment paragraph between two stanzas\n! data-version: hp/releases/1998-08-08\n");
        }
    }
    if o.noise && rng.chance(1, 3) {
        // empty line(s) after the last stanza
        out.push('\n');
        if rng.chance(1, 2) {
            out.push('\n');
        }
    } else {
        drop_final_newline_sometimes(&mut out, rng);
    }
    out
}

pub fn render_hpoa(f: &FactSet, rng: &mut Rng, o: &JaxOpts) -> String {
    let mut rows: Vec<String> = Vec::new();
    // reference, evidence, onset, frequency, sex, modifier, aspect, biocuration: the frequency column is
    // free for this loader (ratios incl. 0/n, percentages, HPO frequency terms, empty)
    let tails: Vec<String> = ["1/2", "0/7", "0%", "0.5%", "", "HP:0040283", "12/12", "100%"]
        .iter()
        .map(|fq| format!("PMID:1\tPCS\t\t{fq}\t\t\tP\tHPO:probinson[2021-06-21]"))
        .collect();
    let tail_idx = rng.next_u64() as usize;
    let mut tail_n = 0usize;
    let mut next_tail = move || {
        tail_n += 1;
        tails[(tail_idx + tail_n * 7) % tails.len()].clone()
    };
    let tail = "PMID:1\tPCS\t\t1/2\t\t\tP\tHPO:probinson[2021-06-21]";
    for (k, prefix) in [(1usize, "OMIM"), (2usize, "ORPHA")] {
        for r in &f.recs[k] {
            for t in &r.terms {
                rows.push(format!("{prefix}:{}\t{}\t\t{}\t{}", r.id, r.name, hp(*t), next_tail()));
            }
        }
    }
    if o.noise {
        let term_ids: Vec<u32> = f.terms.iter().map(|t| t.id).collect();
        // NOT rows for (disease, term) pairs that are otherwise absent
        for (k, prefix) in [(1usize, "OMIM"), (2usize, "ORPHA")] {
            for r in &f.recs[k] {
                for t in &term_ids {
                    if !r.terms.contains(t) && rng.chance(1, 6) {
                        rows.push(format!("{prefix}:{}\t{}\tNOT\t{}\t{tail}", r.id, r.name, hp(*t)));
                    }
                    // sources disagree now and then: a NOT row next to a regular row for the same
                    // disease and term. NOT rows are ignored, so the regular row decides, wherever
                    // the two rows stand in the file.
                    if r.terms.contains(t) && rng.chance(1, 8) {
                        rows.push(format!("{prefix}:{}\t{}\tNOT\t{}\t{tail}", r.id, r.name, hp(*t)));
                    }
                }
            }
            // diseases that have only NOT rows must not exist afterwards
            let existing: Vec<u32> = f.recs[k].iter().map(|r| r.id).collect();
            for _ in 0..2 {
                let id = rng.range(1, 50) as u32;
                if !existing.contains(&id) && !term_ids.is_empty() {
                    rows.push(format!(
                        "{prefix}:{id}\tonly negated {id}\tNOT\t{}\t{tail}",
                        hp(*rng.pick(&term_ids))
                    ));
                }
            }
        }
        // other databases
        if !term_ids.is_empty() {
            for _ in 0..3 {
                rows.push(format!(
                    "DECIPHER:{}\tDecipher thing\t\t{}\t{tail}",
                    rng.range(1, 20),
                    hp(*rng.pick(&term_ids))
                ));
            }
        }
        // comment lines in the middle of the data
        rows.push("#OMIM:1\tcommented out\t\tHP:0000001\tx".to_string());
        // foreign lines are text like any other: characters of two, three and four bytes at every
        // small byte offset (comment lines, rows of other databases, very short lines)
        if rng.chance(1, 2) {
            let wide = ["é", "日", "𝔘", "ß", "語"];
            for _ in 0..rng.urange(1, 4) {
                let lead = "#Cafx:".chars().take(rng.below(7) as usize).collect::<String>();
                let c = *rng.pick(&wide);
                let rest = if rng.chance(1, 3) { String::new() } else { format!("{c} notes\t\t{}\tx", hp(1)) };
                rows.push(format!("{lead}{c}{rest}"));
            }
            if !term_ids.is_empty() {
                rows.push(format!("Décipher:7\tfrançais\t\t{}\t{tail}", hp(*rng.pick(&term_ids))));
                rows.push(format!("ORPH{}:7\t日本語\t\t{}\t{tail}", rng.pick(&wide), hp(*rng.pick(&term_ids))));
            }
        }
    }
    if o.shuffle {
        rng.shuffle(&mut rows);
    }
    let mut out = String::new();
    // comment block and column header are optional in the format: a third of the files start
    // directly with a data row
    match rng.below(3) {
        0 => {}
        1 => out.push_str("#description: \"HPO annotations for rare diseases\"\n"),
        _ => {
            out.push_str("#description: \"HPO annotations for rare diseases\"\n#version: 2023-01-27\n");
            out.push_str("database_id\tdisease_name\tqualifier\thpo_id\treference\tevidence\tonset\tfrequency\tsex\tmodifier\taspect\tbiocuration\n");
        }
    }
    for r in rows {
        out.push_str(&r);
        out.push('\n');
        // an empty line is not a row of any database: ignored like every other foreign line
        if o.noise && rng.chance(1, 12) {
            out.push('\n');
        }
    }
    drop_final_newline_sometimes(&mut out, rng);
    out
}

/// a text file need not end with a line break: a third of the files end with their last row
fn drop_final_newline_sometimes(out: &mut String, rng: &mut Rng) {
    if rng.chance(1, 3) {
        while out.ends_with('\n') {
            out.pop();
        }
    }
}

/// genes_to_phenotype.txt: ncbi_gene_id, gene_symbol, hpo_id, hpo_name, frequency, disease_id
pub fn render_genes_to_phenotype(f: &FactSet, rng: &mut Rng, o: &JaxOpts) -> String {
    let names: BTreeMap<u32, &str> = f.terms.iter().map(|t| (t.id, t.name.as_str())).collect();
    let mut rows: Vec<String> = Vec::new();
    // 0, 1: all six columns; 2: only the three columns the format requires; 3: mixed
    let cols_mode = rng.below(4);
    for r in &f.recs[0] {
        for t in &r.terms {
            if cols_mode == 2 || (cols_mode == 3 && rng.chance(1, 2)) {
                rows.push(format!("{}\t{}\t{}", r.id, r.name, hp(*t)));
                continue;
            }
            let extra = if o.noise && rng.chance(1, 3) { "\textra\tcolumns" } else { "" };
            // the frequency column is free text for this loader: "-", a ratio, a percentage or an
            // HPO frequency term (HP:0040285 = Excluded, HP:0040283 = Occasional)
            let freq = *rng.pick(&["-", "-", "", "3/7", "12%", "HP:0040283", "HP:0040285", "HP:0040280"]);
            rows.push(format!(
                "{}\t{}\t{}\t{}\t{freq}\tOMIM:243400{extra}",
                r.id,
                r.name,
                hp(*t),
                names.get(t).copied().unwrap_or("?")
            ));
        }
    }
    if o.shuffle {
        rng.shuffle(&mut rows);
    }
    let mut out = String::new();
    out.push_str(match o.gene_header_style {
        0 => "ncbi_gene_id\tgene_symbol\thpo_id\thpo_name\tfrequency\tdisease_id\n",
        1 => "#Format: entrez-gene-id<tab>entrez-gene-symbol<tab>HPO-Term-ID<tab>HPO-Term-Name\n",
        _ => "hpo_id\thpo_name\tncbi_gene_id\tgene_symbol\n",
    });
    for r in rows {
        out.push_str(&r);
        out.push('\n');
    }
    if !out.trim_end_matches('\n').is_empty() && out.matches('\n').count() > 1 {
        // (the header line keeps its line break when there are no rows)
        drop_final_newline_sometimes(&mut out, rng);
    }
    out
}

/// phenotype_to_genes.txt: hpo_id, hpo_name, ncbi_gene_id, gene_symbol, disease_id
pub fn render_phenotype_to_genes(f: &FactSet, rng: &mut Rng, o: &JaxOpts) -> String {
    let names: BTreeMap<u32, &str> = f.terms.iter().map(|t| (t.id, t.name.as_str())).collect();
    let mut rows: Vec<String> = Vec::new();
    // 0, 1: all columns; 2: only the four columns the format requires; 3: mixed
    let cols_mode = rng.below(4);
    for r in &f.recs[0] {
        for t in &r.terms {
            if cols_mode == 2 || (cols_mode == 3 && rng.chance(1, 2)) {
                rows.push(format!("{}\t{}\t{}\t{}", hp(*t), names.get(t).copied().unwrap_or("?"), r.id, r.name));
                continue;
            }
            let extra = if o.noise && rng.chance(1, 3) { "\textra" } else { "" };
            rows.push(format!(
                "{}\t{}\t{}\t{}\tOMIM:243400{extra}",
                hp(*t),
                names.get(t).copied().unwrap_or("?"),
                r.id,
                r.name
            ));
        }
    }
    if o.shuffle {
        rng.shuffle(&mut rows);
    }
    let mut out = String::new();
    out.push_str(match o.gene_header_style {
        0 => "hpo_id\thpo_name\tncbi_gene_id\tgene_symbol\tdisease_id\n",
        1 => "#Format: HPO-id<tab>HPO label<tab>entrez-gene-id<tab>entrez-gene-symbol\n",
        _ => "ncbi_gene_id\tgene_symbol\thpo_id\n",
    });
    for r in rows {
        out.push_str(&r);
        out.push('\n');
    }
    if !out.trim_end_matches('\n').is_empty() && out.matches('\n').count() > 1 {
        // (the header line keeps its line break when there are no rows)
        drop_final_newline_sometimes(&mut out, rng);
    }
    out
}

pub fn write_dir(dir: &Path, f: &FactSet, rng: &mut Rng, o: &JaxOpts) -> std::io::Result<()> {
    std::fs::create_dir_all(dir)?;
    std::fs::write(dir.join("hp.obo"), render_obo(f, rng, o))?;
    std::fs::write(dir.join("phenotype.hpoa"), render_hpoa(f, rng, o))?;
    std::fs::write(
        dir.join("genes_to_phenotype.txt"),
        render_genes_to_phenotype(f, rng, o),
    )?;
    std::fs::write(
        dir.join("phenotype_to_genes.txt"),
        render_phenotype_to_genes(f, rng, o),
    )?;
    Ok(())
}
