//! C20: term-id text/byte conversions are total and mutually inverse.

use crate::json::Json;
use crate::observe::{bump_n, guard};
use crate::rng::Rng;
use crate::runner::{CaseOut, Monitor, Tier};
use hpo::annotations::AnnotationId;
use hpo::HpoTermId;
use std::collections::BTreeMap;

pub struct C20;

const CHUNKS: u32 = 80;
const ID_SPACE: u32 = 10_000_000;
const ALPHABET: [&str; 9] = ["H", "P", ":", "0", "7", "+", "é", "€", "😀"];

/// independent formatter: "HP:" + decimal digits, left-padded with '0' to at least 7 digits
fn format_id(id: u32) -> String {
    let mut digits: Vec<u8> = Vec::new();
    let mut x = id;
    loop {
        digits.push(b'0' + (x % 10) as u8);
        x /= 10;
        if x == 0 {
            break;
        }
    }
    while digits.len() < 7 {
        digits.push(b'0');
    }
    digits.reverse();
    let mut s = String::from("HP:");
    s.push_str(std::str::from_utf8(&digits).unwrap());
    s
}

fn check_id(id: u32, out: &mut CaseOut) {
    let t = HpoTermId::from_u32(id);
    let text = t.to_string();
    let exp = format_id(id);
    out.check(text == exp, "C20", "display", || format!("id {id} renders as '{text}', expected '{exp}'"));
    match HpoTermId::try_from(text.as_str()) {
        Ok(back) => out.check(back.as_u32() == id, "C20", "text_roundtrip", || {
            format!("try_from('{text}') = {} for id {id}", back.as_u32())
        }),
        Err(e) => out.violate("C20", "text_roundtrip_err", format!("try_from('{text}') = Err({e}) for id {id}")),
    }
    // the independently formatted text must parse too (not only the library's own rendering)
    match HpoTermId::try_from(exp.as_str()) {
        Ok(back) => out.check(back.as_u32() == id, "C20", "parse_canonical", || {
            format!("try_from('{exp}') = {}", back.as_u32())
        }),
        Err(e) => out.violate("C20", "parse_canonical_err", format!("try_from('{exp}') = Err({e})")),
    }
    // rendering with a width / alignment in the format spec still shows the complete seven-digit form
    if id % 9 == 0 || id > 9_999_990 {
        for (spec, got) in [("{:4}", format!("{t:4}")), ("{:8}", format!("{t:8}")), ("{:<14}", format!("{t:<14}")), ("{:>14}", format!("{t:>14}")), ("{:^12}", format!("{t:^12}"))] {
            out.check(got.trim() == exp, "C20", "display_with_format_spec", || format!("id {id} rendered with {spec} gives '{got}', expected '{exp}' (possibly padded with blanks)"));
        }
    }
    // parsing is a function of the text alone: texts that EXTEND the one just parsed (one more digit, a
    // blank, a letter) are judged by the grammar, whatever was parsed before; then the id again
    if id % 5 == 0 || id > 9_999_990 {
        out.bucket("extension_of_the_text_parsed_just_before");
        for ext in ["0", "7", " ", "x", "\t1"] {
            check_str(&format!("{exp}{ext}"), out);
        }
        match HpoTermId::try_from(exp.as_str()) {
            Ok(back) => out.check(back.as_u32() == id, "C20", "parse_canonical", || format!("try_from('{exp}') = {} after parsing its extensions", back.as_u32())),
            Err(e) => out.violate("C20", "parse_canonical_err", format!("try_from('{exp}') = Err({e}) after parsing its extensions")),
        }
    }
    // the other parsing routes for a VALID rendering: From<String> and comparison with text
    let via_string = guard(|| (HpoTermId::from(text.clone()).as_u32(), t == text.as_str(), t == *text.as_str()));
    match via_string {
        Ok((v, eq_ref, eq_str)) => out.check(v == id && eq_ref && eq_str, "C20", "from_string_roundtrip", || {
            format!("id {id}: HpoTermId::from(String '{text}') = {v}, id == text: {eq_ref}/{eq_str}")
        }),
        Err(p) => out.violate("C20", "from_string_panics_on_rendering", format!("id {id}: {}", p.message)),
    }
    let be = t.to_be_bytes();
    out.check(be == id.to_be_bytes(), "C20", "to_be_bytes", || format!("id {id}: to_be_bytes = {be:?}"));
    out.check(HpoTermId::from(id.to_be_bytes()).as_u32() == id, "C20", "from_be_bytes", || {
        format!("from({:?}) = {}", id.to_be_bytes(), HpoTermId::from(id.to_be_bytes()).as_u32())
    });
    out.check(
        t.as_u32() == id && HpoTermId::from(id).as_u32() == id && t.to_usize() == id as usize && HpoTermId::from(id) == t,
        "C20",
        "u32_conversions",
        || format!("from_u32/as_u32/From<u32>/to_usize disagree for {id}"),
    );
    // the other integer widths
    let wide = HpoTermId::from(u64::from(id)).as_u32() == id && HpoTermId::from(id as usize).as_u32() == id;
    let narrow = u16::try_from(id).map_or(true, |n| HpoTermId::from(n).as_u32() == id);
    out.check(wide && narrow, "C20", "integer_conversions", || format!("From<u64>/From<usize>/From<u16> disagree with from_u32 for {id}"));
}

#[derive(PartialEq, Debug)]
enum Expect {
    Ok(u32),
    Err,
    NotJudged,
}

/// grammar oracle written independently of Rust's integer parser
fn expect_for(s: &str) -> (Expect, &'static str) {
    if s.len() < 4 {
        return (Expect::Err, "shorter_than_4_bytes");
    }
    if !s.is_char_boundary(3) {
        return (Expect::Err, "byte3_inside_multibyte_char");
    }
    let tail = &s.as_bytes()[3..];
    if tail.iter().all(u8::is_ascii_digit) {
        let mut v: u64 = 0;
        for d in tail {
            v = v * 10 + u64::from(d - b'0');
            if v > u64::from(u32::MAX) {
                return (Expect::Err, "overflow");
            }
        }
        return (Expect::Ok(v as u32), "numeric_tail");
    }
    if tail[0] == b'+' && tail.len() > 1 && tail[1..].iter().all(u8::is_ascii_digit) {
        return (Expect::NotJudged, "leading_plus");
    }
    (Expect::Err, "non_numeric_tail")
}

fn check_str(s: &str, out: &mut CaseOut) {
    let (exp, class) = expect_for(s);
    out.bucket(&format!("class/{class}"));
    let r = guard(|| HpoTermId::try_from(s).map(|t| t.as_u32()).map_err(|e| e.to_string()));
    match r {
        Err(p) => out.violate(
            "C20",
            &format!("try_from_panics/{class}"),
            format!("HpoTermId::try_from({s:?}) panicked: {} at {}", p.message, p.location),
        ),
        Ok(res) => match (&exp, &res) {
            (Expect::NotJudged, _) => {}
            (Expect::Ok(v), Ok(g)) => {
                out.check(v == g, "C20", &format!("parse_value/{class}"), || format!("try_from({s:?}) = Ok({g}), expected Ok({v})"));
                // the other parsing routes accept the same grammar (any three-byte prefix, then the number)
                let v = *v;
                let other = guard(|| {
                    let t = HpoTermId::from_u32(v);
                    (HpoTermId::from(s.to_string()).as_u32(), t == s, t == *s)
                });
                out.bucket("other_parsing_routes_on_arbitrary_prefix");
                match other {
                    Ok((from_string, eq_ref, eq_str)) => {
                        out.check(from_string == v, "C20", "from_string_value", || format!("HpoTermId::from({s:?}.to_string()) = {from_string}, expected {v}"));
                        out.check(eq_ref && eq_str, "C20", "partial_eq_str", || format!("HpoTermId({v}) == {s:?} is false"));
                    }
                    Err(p) => out.violate("C20", "from_string_panics_on_wellformed_text", format!("From<String> / PartialEq<str> on {s:?} panicked: {} at {}", p.message, p.location)),
                }
            }
            (Expect::Err, Err(_)) => {
                out.comparisons += 1;
                // the other routes are documented to refuse such text by panicking; what they must never do
                // is hand out an id or call the text equal to one
                // (under Miri every unwinding panic costs about a second: one string in sixteen there)
                let sampled = !cfg!(miri) || crate::rng::hash_bytes(s.as_bytes()) % 16 == 0;
                if sampled && s.len() >= 3 && s.is_char_boundary(3) {
                    let other = guard(|| HpoTermId::from(s.to_string()).as_u32());
                    if let Ok(v) = other {
                        out.violate("C20", "from_string_accepts_garbage", format!("HpoTermId::from({s:?}.to_string()) = {v} although the text is no id (try_from refuses it)"));
                    }
                    for probe in [0u32, 1, 118] {
                        if let Ok(true) = guard(|| HpoTermId::from_u32(probe) == s) {
                            out.violate("C20", "partial_eq_accepts_garbage", format!("HpoTermId({probe}) == {s:?} is true"));
                        }
                    }
                }
            }
            (Expect::Ok(v), Err(e)) => out.violate("C20", &format!("parse_rejects_number/{class}"), format!("try_from({s:?}) = Err({e}), expected Ok({v})")),
            (Expect::Err, Ok(g)) => out.violate("C20", &format!("parse_accepts_garbage/{class}"), format!("try_from({s:?}) = Ok({g}), expected an error")),
        },
    }
}

impl Monitor for C20 {
    fn id(&self) -> &'static str {
        "C20"
    }
    fn rule(&self) -> String {
        "Exhaustive half: every id 0..10^7 (80 chunks) plus u32 borders: to_string vs an independent formatter, try_from(text), from(be bytes), from_u32/as_u32/From<u32>. \
         Totality half: HpoTermId::try_from(&str) under catch_unwind on all 66430 strings of <= 5 symbols over {H,P,:,0,7,+,é,€,😀}, seeded strings of <= 16 chars mixing digits with 1-4 byte characters, numeric borders; \
         grammar oracle: < 4 bytes or byte 3 inside a character => Err; all-digit tail <= u32::MAX => Ok(value); other tails => Err; a single leading '+' is not judged. \
         Distinct = distinct chunk / string set; every chunk and string set is non-trivial."
            .to_string()
    }
    fn assumptions(&self) -> Vec<String> {
        vec![
            "From<String> / PartialEq<&str> are only exercised on well-formed text (any three-byte prefix followed by an unsigned 32-bit decimal number); they are documented to panic on malformed text".into(),
            "a leading '+' (accepted by Rust's u32 grammar) is not judged".into(),
        ]
    }
    fn plan(&self, tier: Tier) -> Vec<String> {
        let mut v: Vec<String> = (0..CHUNKS).map(|c| format!("ids:{c}")).collect();
        v.push("borders:0".into());
        for c in 0..9 {
            v.push(format!("str5:{c}"));
        }
        v.push("numeric:0".into());
        for i in 0..tier.pick(64, 4000) {
            v.push(format!("strrnd:{i}"));
        }
        v
    }
    fn mandatory_buckets(&self, _tier: Tier) -> Vec<String> {
        [
            "ids_checked",
            "class/shorter_than_4_bytes",
            "class/byte3_inside_multibyte_char",
            "class/numeric_tail",
            "class/overflow",
            "class/non_numeric_tail",
        ]
        .iter()
        .map(|s| (*s).to_string())
        .collect()
    }
    fn extra_coverage(&self, _tier: Tier, buckets: &BTreeMap<String, u64>) -> Vec<(String, Json)> {
        let n = buckets.get("ids_checked").copied().unwrap_or(0);
        vec![
            ("exhaustive".into(), Json::Bool(n >= u64::from(ID_SPACE))),
            (
                "exhaustive_note".into(),
                Json::s(format!("{n} ids checked; the id space 0..10^7 and the <=5-symbol string space are enumerated completely, longer strings are sampled")),
            ),
        ]
    }
    fn run_case(&self, label: &str, seed: u64, _tier: Tier) -> CaseOut {
        let mut out = CaseOut::new();
        let parts: Vec<&str> = label.split(':').collect();
        let idx: u32 = parts[1].parse().unwrap();
        out.nontrivial = true;
        out.sig = crate::rng::hash_bytes(label.as_bytes());
        match parts[0] {
            "ids" => {
                let per = ID_SPACE / CHUNKS;
                let lo = idx * per;
                let hi = lo + per;
                for id in lo..hi {
                    check_id(id, &mut out);
                }
                out.bucket_n("ids_checked", u64::from(hi - lo));
                bump_n(&mut out.events, "HpoTermId::to_string", u64::from(hi - lo));
                bump_n(&mut out.events, "HpoTermId::try_from", 2 * u64::from(hi - lo));
                bump_n(&mut out.events, "HpoTermId::from_bytes", u64::from(hi - lo));
                out.case = Json::obj().set("ids", Json::s(format!("{lo}..{hi}")));
            }
            "borders" => {
                let b = [
                    ID_SPACE, ID_SPACE + 1, 99_999_999, 100_000_000, (1u32 << 31) - 1, 1u32 << 31, (1u32 << 31) + 1,
                    u32::MAX - 1, u32::MAX, 1_000_000_000, 4_000_000_000,
                ];
                for id in b {
                    check_id(id, &mut out);
                }
                out.bucket_n("border_ids_checked", b.len() as u64);
                out.case = Json::obj().set("ids", Json::arr_u32(&b));
            }
            "str5" => {
                // all strings whose first symbol is ALPHABET[idx] (plus the empty string in chunk 0)
                let mut n = 0u64;
                if idx == 0 {
                    check_str("", &mut out);
                    n += 1;
                }
                let mut stack: Vec<Vec<usize>> = vec![vec![idx as usize]];
                while let Some(cur) = stack.pop() {
                    let s: String = cur.iter().map(|i| ALPHABET[*i]).collect();
                    check_str(&s, &mut out);
                    n += 1;
                    if cur.len() < 5 {
                        for i in 0..ALPHABET.len() {
                            let mut nx = cur.clone();
                            nx.push(i);
                            stack.push(nx);
                        }
                    }
                }
                out.bucket_n("short_strings_enumerated", n);
                bump_n(&mut out.events, "HpoTermId::try_from", n);
                out.case = Json::obj().set("strings", Json::s(format!("all strings of 1..5 symbols starting with {:?}", ALPHABET[idx as usize])));
            }
            "numeric" => {
                let mut v: Vec<String> = vec![
                    "HP:4294967295".into(),
                    "HP:4294967296".into(),
                    "HP:04294967295".into(),
                    "HP:00000000000000000000000000001".into(),
                    "HP:99999999999999999999".into(),
                    "HP:18446744073709551616".into(),
                    "HP:0".into(),
                    "HP:-1".into(),
                    "HP:-0".into(),
                    "HP:+0".into(),
                    "HP:++1".into(),
                    "HP:+".into(),
                    "HP:1 ".into(),
                    "HP: 1".into(),
                    "HP:1_000".into(),
                    "HP:0x10".into(),
                    "HP:1e3".into(),
                    "HP:١٢٣".into(),
                    "HP:１２３".into(),
                    "HP:12\u{0}".into(),
                    "XX:0000123".into(),
                    "abc123".into(),
                    "éa12".into(),
                    "€12".into(),
                    "😀1".into(),
                    "a😀1".into(),
                    "ab😀".into(),
                    "HP😀1".into(),
                    "HPé1".into(),
                    "ab€12".into(),
                ];
                for k in 0..40u64 {
                    v.push(format!("HP:{}", u64::from(u32::MAX) - 20 + k));
                }
                // three-byte prefixes that tools like to "clean up": byte order mark, zero-width and other
                // special blanks, white space, control characters – the prefix is skipped, whatever it is
                for prefix in ["\u{feff}", "\u{200b}", "\u{2028}", "\u{3000}", "\u{a0}x", "x\u{a0}", "   ", "\t\t\t", "\n\n\n", "\r\n ", "\u{0}\u{0}\u{0}", "\u{7f}\u{1b}\u{8}", "HP\u{0}", "\\\\:"] {
                    for tail in ["7", "118", "0000118", "4294967295", "4294967296", "HP:0000118", "12:3456789", "", " 7", "7 "] {
                        v.push(format!("{prefix}{tail}"));
                    }
                }
                // zero-padded numbers of every text length: the value, not the length of the text, decides
                let lens: Vec<usize> = if cfg!(miri) {
                    (4..20).chain(254..262).chain(514..517).collect()
                } else {
                    (4..=1100).chain(65_530..=65_545).collect()
                };
                for len in lens {
                    for digits in ["7", "118", "4294967295", "4294967296"] {
                        if len >= 3 + digits.len() {
                            let s = format!("HP:{}{digits}", "0".repeat(len - 3 - digits.len()));
                            check_str(&s, &mut out);
                            out.bucket("zero_padded_text_of_every_length");
                        }
                    }
                }
                // what follows an id in the text formats (obo comment, modifier block, column separators, line ends,
                // list separators): the whole tail must be a number, nothing is cut off
                for num in ["7", "0000118", "4294967295", "4294967296", ""] {
                    for suffix in [
                        " ! Phenotypic abnormality", " !", " !7", "!", " ! ", " !x", "\t!", "  ! x", " {source=\"x\"}", " {", "\tx", "\t", "\r", "\r\n", "\n",
                        ";", ",", ";HP:0000001", ", HP:0000001", " HP:0000001", "|", " #", "#x", " // x", ".", ".0", "/1", "\\", "\"", "'",
                    ] {
                        v.push(format!("HP:{num}{suffix}"));
                        v.push(format!("HP:{suffix}{num}"));
                        out.bucket("text_format_suffix_after_number");
                    }
                }
                for s in &v {
                    check_str(s, &mut out);
                }
                bump_n(&mut out.events, "HpoTermId::try_from", v.len() as u64);
                out.case = Json::obj().set("strings", Json::arr_str(&v));
            }
            _ => {
                let mut rng = Rng::for_case(seed, "C20", label);
                let pool: [&str; 16] = ["0", "1", "9", "7", "H", "P", ":", "+", "-", " ", "é", "ß", "€", "漢", "😀", "a"];
                let mut strings = Vec::new();
                for _ in 0..2000 {
                    let n = rng.urange(0, 16);
                    let mut s = String::new();
                    let digits_only_tail = rng.chance(1, 2);
                    for i in 0..n {
                        if digits_only_tail && i >= 3 {
                            s.push_str(*rng.pick(&pool[0..4]));
                        } else {
                            s.push_str(*rng.pick(&pool));
                        }
                    }
                    check_str(&s, &mut out);
                    if strings.len() < 8 {
                        strings.push(s);
                    }
                }
                bump_n(&mut out.events, "HpoTermId::try_from", 2000);
                out.case = Json::obj().set("first_strings", Json::arr_str(&strings));
            }
        }
        out
    }
}

/// small string workload for the Miri add-on (no Ontology involved)
pub fn lite_case(label: &str, seed: u64) -> CaseOut {
    let mut out = CaseOut::new();
    if label.starts_with("numeric") {
        return C20.run_case("numeric:0", seed, Tier::Quick);
    }
    let mut rng = Rng::for_case(seed, "C20", label);
    let pool: [&str; 16] = ["0", "1", "9", "7", "H", "P", ":", "+", "-", " ", "é", "ß", "€", "漢", "😀", "a"];
    for _ in 0..20 {
        let n = rng.urange(0, 12);
        let mut s = String::new();
        for i in 0..n {
            if i >= 3 && rng.chance(1, 2) {
                s.push_str(*rng.pick(&pool[0..4]));
            } else {
                s.push_str(*rng.pick(&pool));
            }
        }
        check_str(&s, &mut out);
    }
    for _ in 0..5 {
        check_id(rng.next_u64() as u32, &mut out);
    }
    out
}
