//! State-vs-model monitors C01 (closure), C02 (annotation inheritance), C03 (information content),
//! C19 (categories / modifiers). One construction per case, whole read API walked, each property
//! judges the observation sites it owns.

use super::common::*;
use crate::drive::{self, BuildFail};
use crate::facts::{FactSet, TermFact, KIND_NAMES};
use crate::gen::{gen_name, gen_records, GenCfg, NameMode};
use crate::json::Json;
use crate::model::Model;
use crate::observe::{bump, guard, Obs};
use crate::rng::Rng;
use crate::runner::{CaseOut, Monitor, Tier};
use hpo::Ontology;
use std::collections::{BTreeMap, BTreeSet};

pub struct StateMonitor {
    pub prop: &'static str,
}

fn owns(prop: &str, site: &str) -> bool {
    let is_panic_of = |names: &[&str]| {
        site.strip_prefix("panic:")
            .is_some_and(|a| names.iter().any(|n| a == *n))
    };
    match prop {
        "C01" => {
            matches!(
                site,
                "parents" | "children" | "ancestors" | "group_order" | "resolve_twin_terms"
            ) || is_panic_of(&[
                "HpoTerm::parent_ids",
                "HpoTerm::children_ids",
                "HpoTerm::all_parent_ids",
                "HpoTerm::parents",
                "HpoTerm::children",
                "HpoTerm::all_parents",
            ])
        }
        "C02" => {
            matches!(
                site,
                "links_gene"
                    | "links_omim"
                    | "links_orpha"
                    | "gene_terms"
                    | "omim_terms"
                    | "orpha_terms"
                    | "gene_set"
                    | "omim_set"
                    | "orpha_set"
                    | "dangling_record"
                    | "resolve_twin_records"
                    | "rec_lookup"
                    | "rec_iter_duplicates"
            ) || is_panic_of(&[
                "HpoTerm::gene_ids",
                "HpoTerm::omim_disease_ids",
                "HpoTerm::orpha_disease_ids",
                "HpoTerm::genes",
                "HpoTerm::omim_diseases",
                "HpoTerm::orpha_diseases",
                "Ontology::gene",
                "Ontology::omim_disease",
                "Ontology::orpha_disease",
                "Gene::to_hpo_set.iter",
                "OmimDisease::to_hpo_set.iter",
                "OrphaDisease::to_hpo_set.iter",
            ])
        }
        "C03" => matches!(site, "ic_get_kind" | "ic_gene" | "ic_omim" | "ic_orpha") || is_panic_of(&["HpoTerm::information_content"]),
        "C19" => {
            matches!(
                site,
                "ont_categories" | "ont_modifier" | "is_modifier" | "term_categories"
            ) || is_panic_of(&[
                "Ontology::categories",
                "Ontology::modifier",
                "HpoTerm::is_modifier",
                "HpoTerm::categories",
            ])
        }
        _ => false,
    }
}

/// C19-specific shape: many top-level branches, terms under several categories / under both a
/// modifier and a phenotype branch, childless top-level terms, HP:118 not below HP:1.
fn gen_c19_facts(rng: &mut Rng, flags: bool) -> FactSet {
    let mut f = FactSet::default();
    f.version = (2024, 1, 2);
    let mut next_id = 200u32;
    let mut mk = |f: &mut FactSet, rng: &mut Rng, id: Option<u32>, name: Option<&str>| -> u32 {
        let id = id.unwrap_or_else(|| {
            next_id += rng.range(1, 30) as u32;
            next_id
        });
        f.terms.push(TermFact {
            id,
            name: name.map_or_else(|| format!("{} {id}", gen_name(rng, NameMode::Mixed)), str::to_string),
            obsolete: false,
            replaced_by: None,
        });
        id
    };
    mk(&mut f, rng, Some(1), Some("All"));
    mk(&mut f, rng, Some(118), Some("Phenotypic abnormality"));
    let pheno_under_root = !rng.chance(1, 8);
    if pheno_under_root {
        f.edges.push((118, 1));
    }
    let n_mod = rng.urange(0, 4);
    let n_cat = rng.urange(0, 5);
    let mut mods = Vec::new();
    let mut cats = Vec::new();
    for _ in 0..n_mod {
        // ids both below and above 118
        let id = if rng.chance(1, 2) { Some(rng.range(2, 117) as u32) } else { None };
        let id = id.filter(|i| f.term(*i).is_none());
        let m = mk(&mut f, rng, id, None);
        f.edges.push((m, 1));
        mods.push(m);
    }
    for _ in 0..n_cat {
        let id = if rng.chance(1, 2) { Some(rng.range(2, 117) as u32) } else { None };
        let id = id.filter(|i| f.term(*i).is_none());
        let c = mk(&mut f, rng, id, None);
        f.edges.push((c, 118));
        cats.push(c);
    }
    // a category that is also a direct child of HP:1 (both modifier root and category)
    if !cats.is_empty() && rng.chance(1, 6) {
        let c = *rng.pick(&cats);
        f.edges.push((c, 1));
    }
    let tops: Vec<u32> = mods.iter().chain(cats.iter()).copied().collect();
    let mut lower: Vec<u32> = Vec::new();
    let n_lower = rng.urange(0, 14);
    for _ in 0..n_lower {
        let t = mk(&mut f, rng, None, None);
        let mut cand: Vec<u32> = tops.iter().chain(lower.iter()).copied().collect();
        if cand.is_empty() {
            cand.push(if rng.chance(1, 2) { 1 } else { 118 });
        }
        let k = rng.urange(1, 3);
        let mut ps = BTreeSet::new();
        for _ in 0..k {
            ps.insert(*rng.pick(&cand));
        }
        // sometimes below both a modifier and a phenotype branch
        if !mods.is_empty() && !cats.is_empty() && rng.chance(1, 4) {
            ps.insert(*rng.pick(&mods));
            ps.insert(*rng.pick(&cats));
        }
        for p in ps {
            f.edges.push((t, p));
        }
        lower.push(t);
    }
    // a term directly below MANY top-level branches (more parents than those parents have ancestors)
    if rng.chance(1, 6) {
        let extra = rng.urange(6, 12);
        let mut many: Vec<u32> = Vec::new();
        let under_root = rng.chance(1, 2);
        for _ in 0..extra {
            let b = mk(&mut f, rng, None, None);
            f.edges.push((b, if under_root { 1 } else { 118 }));
            many.push(b);
        }
        let t = mk(&mut f, rng, None, None);
        for b in &many {
            f.edges.push((t, *b));
        }
        let t2 = mk(&mut f, rng, None, None);
        f.edges.push((t2, t));
    }
    // HP:118 itself below a top-level branch (it stays a child of HP:1, hence no modifier root, but it
    // descends from one)
    if pheno_under_root && !mods.is_empty() && rng.chance(1, 8) {
        f.edges.push((118, *rng.pick(&mods)));
    }
    // a direct child of HP:118 that is also below a modifier
    if !mods.is_empty() && rng.chance(1, 4) {
        let t = mk(&mut f, rng, None, None);
        f.edges.push((t, 118));
        f.edges.push((t, *rng.pick(&mods)));
    }
    if flags && rng.chance(1, 3) {
        let t = mk(&mut f, rng, None, None);
        let last = f.terms.len() - 1;
        f.terms[last].obsolete = true;
        let _ = t;
    }
    let cfg = GenCfg::default();
    gen_records(rng, &mut f, &cfg);
    f
}

impl StateMonitor {
    fn pairwise_c01(&self, ont: &Ontology, m: &Model, out: &mut CaseOut) {
        let ids: Vec<u32> = m.ids.iter().copied().collect();
        if ids.len() > 160 {
            return; // all-pairs only for moderate sizes (pairs are sampled implicitly by the walk diff)
        }
        for a in &ids {
            let Some(ta) = ont.hpo(*a) else { continue };
            for b in &ids {
                let Some(tb) = ont.hpo(*b) else { continue };
                let exp = m.anc[a].contains(b);
                bump(&mut out.events, "HpoTerm::child_of");
                bump(&mut out.events, "HpoTerm::parent_of");
                let r = guard(|| (ta.child_of(&tb), tb.parent_of(&ta)));
                match r {
                    Ok((c, p)) => {
                        out.check(c == exp, "C01", "child_of", || {
                            format!("child_of({a},{b}) = {c}, model closure says {exp}")
                        });
                        out.check(p == exp, "C01", "parent_of", || {
                            format!("parent_of({b},{a}) = {p}, model closure says {exp}")
                        });
                    }
                    Err(p) => out.violate("C01", "panic:child_of", format!("child_of({a},{b}) panicked: {}", p.message)),
                }
            }
        }
        out.bucket_n("ordered_pairs_queried", (ids.len() * ids.len()) as u64);
    }

    /// closure must be the transitive closure of the *observed* direct parents, children the inverse
    fn self_consistency_c01(&self, obs: &Obs, out: &mut CaseOut, site_suffix: &str) {
        let mut par: BTreeMap<u32, BTreeSet<u32>> = BTreeMap::new();
        for (id, t) in &obs.terms {
            par.insert(*id, t.parents.iter().copied().collect());
        }
        for (id, t) in &obs.terms {
            // closure over observed parents
            let mut seen = BTreeSet::new();
            let mut stack: Vec<u32> = t.parents.clone();
            while let Some(x) = stack.pop() {
                if seen.insert(x) {
                    if let Some(ps) = par.get(&x) {
                        stack.extend(ps.iter().copied());
                    }
                }
            }
            let exp: Vec<u32> = seen.into_iter().collect();
            out.check(exp == t.ancestors, "C01", &format!("closure_of_observed_parents{site_suffix}"), || {
                format!("term {id}: all_parent_ids {:?} but closure of observed parents is {:?}", t.ancestors, exp)
            });
            out.check(!t.ancestors.contains(id), "C01", &format!("self_in_ancestors{site_suffix}"), || {
                format!("term {id} is its own ancestor")
            });
            for p in &t.parents {
                let ok = obs.terms.get(p).is_some_and(|pt| pt.children.contains(id));
                out.check(ok, "C01", &format!("child_inverse{site_suffix}"), || {
                    format!("term {id} has parent {p} but {p} does not list {id} as child")
                });
            }
            for c in &t.children {
                let ok = obs.terms.get(c).is_some_and(|ct| ct.parents.contains(id));
                out.check(ok, "C01", &format!("parent_inverse{site_suffix}"), || {
                    format!("term {id} has child {c} but {c} does not list {id} as parent")
                });
            }
        }
    }

    /// C01 on the sub_ontology construction path: the result's closure must be the closure of ITS
    /// OWN direct parents, children the inverse, child_of/parent_of membership in that closure.
    /// (Which terms and links a sub-ontology must contain is C14's business.)
    fn sub_ontology_case(&self, rng: &mut Rng, tier: Tier, out: &mut CaseOut) {
        let defaults = rng.chance(1, 2);
        let cfg = GenCfg {
            n_min: 4,
            n_max: if rng.chance(1, 6) { tier.pick(60, 90) } else { 30 },
            defaults,
            max_paths: Some(tier.pick(200, 1500)),
            ..GenCfg::default()
        };
        let mut facts = crate::gen::gen_facts(rng, &cfg).builder_view();
        let m = Model::new(&facts, defaults);
        let ids: Vec<u32> = m.ids.iter().copied().collect();
        // a root with descendants and 1..5 leaves below it
        let cands: Vec<u32> = ids.iter().copied().filter(|t| !m.desc[t].is_empty()).collect();
        if cands.is_empty() {
            out.bucket("sub_source_without_edges");
            return;
        }
        // C02/C03 want annotations on modifier and phenotype branches alike: prefer HP:1 as root there
        let root = if self.prop != "C01" && defaults && rng.chance(1, 2) { 1 } else { *rng.pick(&cands) };
        let below: Vec<u32> = m.desc[&root].iter().copied().collect();
        if below.is_empty() {
            out.bucket("sub_source_without_edges");
            return;
        }
        let k = rng.urange(1, 5);
        let leaves: Vec<u32> = (0..k).map(|_| *rng.pick(&below)).collect();
        // records that meet the sub-ontology in exactly one term: the root, one leaf, the smallest and
        // the largest id among root and leaves
        if self.prop != "C01" {
            let mut single: BTreeSet<u32> = [root, leaves[0]].into();
            single.insert(*leaves.iter().chain([root].iter()).min().unwrap());
            single.insert(*leaves.iter().chain([root].iter()).max().unwrap());
            for (n, t) in single.iter().enumerate() {
                let kind = n % 3;
                let rid = 3_000_000 + n as u32;
                if facts.recs[kind].iter().all(|r| r.id != rid) {
                    facts.recs[kind].push(crate::facts::RecFact { id: rid, name: format!("only-on-{t}"), terms: vec![*t] });
                }
            }
        }
        let m = Model::new(&facts, defaults);
        let src = match drive::via_builder(&facts, Some(rng), defaults) {
            Ok(o) => o,
            Err(e) => {
                out.violate(self.prop, "construct_failed/sub_source", format!("{e}"));
                return;
            }
        };
        out.case = Json::obj()
            .set("path", Json::s("sub_ontology"))
            .set("root", Json::u(u64::from(root)))
            .set("leaves", Json::arr_u32(&leaves))
            .set("source_facts", facts.to_json());
        out.sig = crate::rng::hash_u64s(&[facts.content_hash(), u64::from(root), crate::rng::hash_u64s(&leaves.iter().map(|x| u64::from(*x)).collect::<Vec<_>>())]);
        bump(&mut out.events, "Ontology::sub_ontology");
        let sub = guard(|| {
            let r = src.hpo(root).expect("root");
            let ls: Vec<hpo::HpoTerm> = leaves.iter().map(|l| src.hpo(*l).expect("leaf")).collect();
            src.sub_ontology(r, ls).map_err(|e| e.to_string())
        });
        let sub = match sub {
            Ok(Ok(o)) => o,
            Ok(Err(e)) => {
                out.violate(self.prop, "construct_failed/sub_ontology", format!("sub_ontology({root}, {leaves:?}) = Err({e}) for leaves below root"));
                return;
            }
            Err(p) => {
                out.violate(self.prop, "construct_panic/sub_ontology", format!("{} at {}", p.message, p.location));
                return;
            }
        };
        out.bucket("path/sub_ontology");
        let obs = crate::observe::walk(&sub, &[], &mut out.events);
        out.nontrivial = obs.terms.len() >= 3;
        for p in &obs.panics {
            if owns(self.prop, &format!("panic:{}", p.accessor)) {
                out.violate(self.prop, &format!("panic:{}/sub_ontology", p.accessor), format!("{}({}) panicked: {}", p.accessor, p.id, p.info.message));
            }
        }
        for (site, detail) in &obs.anomalies {
            if owns(self.prop, site) {
                out.violate(self.prop, &format!("{site}/sub_ontology"), detail.clone());
            }
        }
        if self.prop != "C01" {
            // the result's own facts: observed terms, observed direct parents, observed records
            let mut own = FactSet::default();
            for (id, t) in &obs.terms {
                own.terms.push(TermFact { id: *id, name: t.name.clone(), obsolete: t.obsolete, replaced_by: t.replacement });
                for p in &t.parents {
                    own.edges.push((*id, *p));
                }
            }
            // the same result described by the SOURCE facts: every kept record with its source direct terms
            // that were retained
            let mut own_src = FactSet::default();
            for k in 0..3 {
                for (rid, r) in &obs.recs[k] {
                    own.recs[k].push(crate::facts::RecFact { id: *rid, name: r.name.clone(), terms: r.terms.clone() });
                    // every kept record lists exactly its source direct terms that were retained
                    let exp: Vec<u32> = m.direct[k].get(rid).map(|d| d.iter().copied().filter(|t| obs.terms.contains_key(t)).collect()).unwrap_or_default();
                    own_src.recs[k].push(crate::facts::RecFact { id: *rid, name: r.name.clone(), terms: exp.clone() });
                    if self.prop == "C02" {
                        out.check(r.terms == exp, "C02", &format!("{}_terms/sub_ontology", KIND_NAMES[k]), || {
                            format!("{} {rid} in sub_ontology({root}, {leaves:?}) lists {:?}; its source direct terms among the retained terms are {exp:?}", KIND_NAMES[k], r.terms)
                        });
                    }
                }
            }
            let om = Model::new(&own, false);
            if self.prop == "C02" {
                // a record directly annotated to a retained term that is not a modifier term keeps that
                // link in the result (so the record is there)
                for k in 0..3 {
                    for (rid, direct) in &m.direct[k] {
                        let hit: Vec<u32> = direct.iter().copied().filter(|t| obs.terms.contains_key(t) && !m.is_modifier(*t)).collect();
                        if !hit.is_empty() {
                            out.check(obs.recs[k].contains_key(rid), "C02", &format!("{}_record_dropped/sub_ontology", KIND_NAMES[k]), || {
                                format!("{} {rid} is directly annotated to the retained phenotype term(s) {hit:?} but is missing in sub_ontology({root}, {leaves:?})", KIND_NAMES[k])
                            });
                        } else {
                            // ... and a record that touches the result only in modifier terms (or not at all) is not
                            // part of it: no term of the result is linked to a record through a modifier term alone
                            out.check(!obs.recs[k].contains_key(rid), "C02", &format!("{}_record_without_phenotype_term/sub_ontology", KIND_NAMES[k]), || {
                                let touched: Vec<u32> = direct.iter().copied().filter(|t| obs.terms.contains_key(t)).collect();
                                format!("{} {rid} is in sub_ontology({root}, {leaves:?}) although its retained direct terms {touched:?} are all modifier terms (roots {:?})", KIND_NAMES[k], m.modifier_roots)
                            });
                        }
                    }
                }
                for (id, t) in &obs.terms {
                    for k in 0..3 {
                        let exp: Vec<u32> = om.links[k][id].iter().copied().collect();
                        out.check(t.links[k] == exp, "C02", &format!("links_{}/sub_ontology", KIND_NAMES[k]), || {
                            format!("term {id} in sub_ontology({root}, {leaves:?}): {} links {:?}, records directly annotated to it or a descendant: {exp:?}", KIND_NAMES[k], t.links[k])
                        });
                    }
                }
                self.c02_extra(&om, &own, out);
            } else {
                self.c03_checks(&om, &obs, out);
                // IC against the result's own records: a term that one of the result's records lists as
                // direct term (or an ancestor of such a term) counts that record
                own_src.terms = own.terms.clone();
                own_src.edges = own.edges.clone();
                let osm = Model::new(&own_src, false);
                for (id, t) in &obs.terms {
                    for k in 0..3 {
                        for (what, exp) in [("the result's own records", om.ic(k, *id)), ("the kept records with their retained source terms", osm.ic(k, *id))] {
                            out.check(crate::observe::ic_close(t.ic[k], exp), "C03", &format!("ic_{}/sub_ontology", KIND_NAMES[k]), || {
                                format!("term {id} in sub_ontology({root}, {leaves:?}): {} IC {}, -ln(n/N) from {what} = {exp}", KIND_NAMES[k], t.ic[k])
                            });
                        }
                    }
                }
            }
            return;
        }
        // the direct parents of a retained term are its source parents that were retained as well
        for (id, t) in &obs.terms {
            let exp: Vec<u32> = m.parents.get(id).map(|ps| ps.iter().copied().filter(|p| obs.terms.contains_key(p)).collect()).unwrap_or_default();
            out.check(t.parents == exp, "C01", "parents/sub_ontology", || {
                format!("term {id} in sub_ontology({root}, {leaves:?}): parents {:?}, source parents among the retained terms {exp:?}", t.parents)
            });
        }
        self.self_consistency_c01(&obs, out, "/sub_ontology");
        // child_of / parent_of against the closure of the result's own direct parents
        let mut own = FactSet::default();
        for (id, t) in &obs.terms {
            own.terms.push(TermFact { id: *id, name: t.name.clone(), obsolete: false, replaced_by: None });
            for p in &t.parents {
                if obs.terms.contains_key(p) {
                    own.edges.push((*id, *p));
                }
            }
        }
        let om = Model::new(&own, false);
        self.pairwise_c01(&sub, &om, out);
        structural_buckets(&om, out);
    }

    /// real-scale case: a binary file shipped with the repository (ontology.hpo holds the complete HPO,
    /// ~19 500 terms and ~17 800 records), decoded independently and compared through the whole read API
    fn shipped_case(&self, name: &str, out: &mut CaseOut) {
        let (v, view, bytes) = match shipped_facts(name) {
            Ok(x) => x,
            Err(e) => {
                out.inconclusive = Some(format!("shipped file {name}: {e}"));
                return;
            }
        };
        out.bucket(&format!("shipped/{name}"));
        out.sig = crate::rng::hash_bytes(name.as_bytes());
        out.nontrivial = true;
        out.case = Json::obj().set("shipped_file", Json::s(name)).set("format_version", Json::u(u64::from(v))).set("facts", view.summary());
        let ont = match drive::from_bytes(&bytes) {
            Ok(o) => o,
            Err(e) => {
                out.violate(self.prop, &format!("shipped_file_rejected/{name}"), format!("{e}"));
                return;
            }
        };
        let (model, obs, diffs) = walk_and_diff(&view, true, &ont, out);
        structural_buckets(&model, out);
        for d in &diffs {
            if owns(self.prop, &d.site) {
                out.violate(self.prop, &format!("{}/shipped_{name}", d.site), d.detail.clone());
            }
        }
        match self.prop {
            "C01" => {
                self.pairwise_c01(&ont, &model, out);
                self.self_consistency_c01(&obs, out, "/shipped");
            }
            "C02" => self.c02_extra(&model, &view, out),
            "C03" => self.c03_checks(&model, &obs, out),
            _ => {}
        }
    }

    /// an ontology with more terms than a 16-bit index can address (the complete HPO has ~19 500)
    fn many_terms_case(&self, idx: usize, rng: &mut Rng, out: &mut CaseOut) {
        let n: u32 = 65_600 + (idx as u32) * 700;
        let mut f = FactSet::default();
        f.version = (2031, 1, 1);
        // term ids 1..=n in DESCENDING supply order for idx 0, random order otherwise
        let mut ids: Vec<u32> = (1..=n).collect();
        if idx == 0 {
            ids.reverse();
        } else {
            rng.shuffle(&mut ids);
        }
        for id in &ids {
            f.terms.push(TermFact { id: *id, name: format!("t{id}"), obsolete: false, replaced_by: None });
        }
        f.edges.push((118, 1));
        for id in 2..=n {
            if id == 118 {
                continue;
            }
            // a small DAG among the first 300 ids, everything else hangs below it
            let k = if id <= 300 { rng.urange(1, 2) } else { 1 };
            for _ in 0..k {
                let p = if id <= 300 { rng.range(1, u64::from(id - 1)) as u32 } else { rng.range(1, 300) as u32 };
                if p != id {
                    f.edges.push((id, p));
                }
            }
        }
        for k in 0..3 {
            for r in 0..4u32 {
                let terms: Vec<u32> = (0..3).map(|_| rng.range(1, u64::from(n)) as u32).collect();
                f.recs[k].push(crate::facts::RecFact { id: r + 1 + k as u32, name: format!("{}{r}", KIND_NAMES[k]), terms });
            }
        }
        let path = if idx % 2 == 0 { PathKind::BuilderDefaults } else { PathKind::BytesV3 };
        out.sig = crate::rng::hash_u64s(&[0x3a27, idx as u64, f.content_hash()]);
        out.nontrivial = true;
        out.bucket("more_than_65535_terms");
        out.bucket(&format!("path/{}", path.name()));
        out.case = Json::obj().set("kind", Json::s("ontology with more than 65 535 terms")).set("n_terms", Json::u(u64::from(n))).set("path", Json::s(path.name()));
        let ont = match construct(&f, path, rng, self.prop) {
            Ok(o) => o,
            Err(e) => {
                out.violate(self.prop, &format!("construct_failed_many_terms/{}", path.name()), format!("{e}"));
                return;
            }
        };
        let (model, obs, diffs) = walk_and_diff(&f, true, &ont, out);
        for d in &diffs {
            if owns(self.prop, &d.site) {
                out.violate(self.prop, &format!("{}/many_terms", d.site), d.detail.clone());
            }
        }
        match self.prop {
            "C01" => self.self_consistency_c01(&obs, out, "/many_terms"),
            "C02" => self.c02_extra(&model, &f, out),
            "C03" => self.c03_checks(&model, &obs, out),
            _ => {}
        }
    }

    /// C03 at the documented population limit: 65 535 records of a kind must work exactly; above it the
    /// library documents an error (counts cannot be converted to f32 safely) – an Ok result must still
    /// follow the formula.
    fn big_population_case(&self, idx: usize, out: &mut CaseOut) {
        let kind = idx % 3;
        let n_records = [65_535usize, 65_536, 65_537, 70_000][(idx / 3) % 4];
        let mut f = FactSet::default();
        for id in 1..=5u32 {
            f.terms.push(TermFact { id, name: format!("t{id}"), obsolete: false, replaced_by: None });
            if id > 1 {
                f.edges.push((id, id - 1));
            }
        }
        for r in 0..n_records as u32 {
            let terms = match r {
                0 => vec![5],
                1 => vec![3, 4],
                2 => vec![2],
                _ => vec![],
            };
            f.recs[kind].push(crate::facts::RecFact { id: r + 1, name: format!("r{r}"), terms });
        }
        // a few records of another kind so that totals differ
        f.recs[(kind + 1) % 3].push(crate::facts::RecFact { id: 1, name: "other".into(), terms: vec![4] });
        out.sig = crate::rng::hash_u64s(&[0xb16, idx as u64]);
        out.nontrivial = true;
        out.case = Json::obj().set("kind", Json::s(KIND_NAMES[kind])).set("records_of_kind", Json::us(n_records)).set("terms", Json::s("chain 5->4->3->2->1"));
        out.bucket(&format!("population/{}", if n_records > 65_535 { "above_u16" } else { "at_u16_max" }));
        match drive::via_builder(&f, None, false) {
            Ok(ont) => {
                let model = Model::new(&f, false);
                let ids: Vec<u32> = f.terms.iter().map(|t| t.id).collect();
                let obs = crate::observe::walk(&ont, &ids, &mut out.events);
                self.c03_checks(&model, &obs, out);
                out.bucket("population/accepted");
            }
            Err(BuildFail::Err(e)) => {
                out.check(n_records > 65_535, "C03", "population_at_limit_refused", || format!("{n_records} {} records refused: {e}", KIND_NAMES[kind]));
                out.bucket("population/refused_with_error");
            }
            Err(BuildFail::Panic(p)) => out.violate("C03", "population_panics", format!("{n_records} records: {} at {}", p.message, p.location)),
        }
    }

    fn c02_extra(&self, m: &Model, view: &FactSet, out: &mut CaseOut) {
        // classification buckets from the quantifier
        for k in 0..3 {
            if view.recs[k].iter().any(|r| r.terms.is_empty()) {
                out.bucket("record_without_terms");
            }
            if view.recs[k].is_empty() {
                out.bucket("kind_with_zero_records");
            }
            for r in &view.recs[k] {
                let ts: BTreeSet<u32> = r.terms.iter().copied().collect();
                if ts.len() < r.terms.len() {
                    out.bucket("repeated_fact");
                }
                // inner node annotated whose ancestors are already linked through another annotated term
                if ts.iter().any(|t| {
                    ts.iter().any(|u| u != t && (m.anc[u].contains(t) || m.anc[t].iter().any(|a| m.anc[u].contains(a))))
                }) {
                    out.bucket("annotation_with_shared_ancestors");
                }
            }
        }
        let g: BTreeSet<u32> = view.recs[0].iter().map(|r| r.id).collect();
        let o: BTreeSet<u32> = view.recs[1].iter().map(|r| r.id).collect();
        let p: BTreeSet<u32> = view.recs[2].iter().map(|r| r.id).collect();
        if g.intersection(&o).next().is_some() || o.intersection(&p).next().is_some() {
            out.bucket("overlapping_ids_across_kinds");
        }
    }

    fn c03_checks(&self, m: &Model, obs: &Obs, out: &mut CaseOut) {
        // formula on OBSERVED counts (C02 owns the counts themselves)
        let totals = [obs.recs[0].len(), obs.recs[1].len(), obs.recs[2].len()];
        if totals[0] != totals[1] && totals[1] != totals[2] && totals[0] != totals[2] {
            out.bucket("three_distinct_totals");
        }
        for k in 0..3 {
            if totals[k] == 0 {
                out.bucket("kind_with_zero_records");
            }
            for (id, t) in &obs.terms {
                let n = t.links[k].len();
                let ic = t.ic[k];
                let exp = if n == 0 || totals[k] == 0 {
                    0.0
                } else {
                    -((n as f64) / (totals[k] as f64)).ln()
                };
                if n == totals[k] && n > 0 {
                    out.bucket("term_linked_to_all_records");
                }
                if n == 0 {
                    out.bucket("term_without_annotation");
                }
                out.check(ic.is_finite() && ic >= 0.0, "C03", &format!("ic_not_finite_nonneg/{}", KIND_NAMES[k]), || {
                    format!("term {id} kind {}: IC = {ic}", KIND_NAMES[k])
                });
                out.check(
                    crate::observe::ic_close(ic, exp),
                    "C03",
                    &format!("ic_formula/{}", KIND_NAMES[k]),
                    || {
                        format!(
                            "term {id} kind {}: IC = {ic}, -ln({n}/{}) = {exp}",
                            KIND_NAMES[k], totals[k]
                        )
                    },
                );
                if (n == 0 || totals[k] == 0) && ic != 0.0 {
                    out.violate("C03", &format!("ic_zero_case/{}", KIND_NAMES[k]), format!("term {id}: n={n} N={} but IC={ic}", totals[k]));
                }
            }
            // monotone along ancestor -> descendant among annotated terms (closure from the model)
            for (id, t) in &obs.terms {
                if t.links[k].is_empty() {
                    continue;
                }
                let Some(anc) = m.anc.get(id) else { continue };
                for a in anc {
                    let Some(ta) = obs.terms.get(a) else { continue };
                    if ta.links[k].is_empty() {
                        continue;
                    }
                    out.check(
                        ta.ic[k] <= t.ic[k] + 1e-6,
                        "C03",
                        &format!("ic_monotone/{}", KIND_NAMES[k]),
                        || format!("ancestor {a} IC {} > descendant {id} IC {}", ta.ic[k], t.ic[k]),
                    );
                }
            }
        }
        if obs.recs.iter().any(|r| r.values().any(|x| x.terms.is_empty())) {
            out.bucket("record_without_terms_counts_in_N");
        }
    }

    fn missing_root_case(&self, label: &str, rng: &mut Rng, out: &mut CaseOut) {
        // label: noroot:<variant>:<path>
        let parts: Vec<&str> = label.split(':').collect();
        let variant: usize = parts[1].parse().unwrap();
        let path = [PathKind::BuilderDefaults, PathKind::BytesV3, PathKind::Jax, PathKind::BytesV2, PathKind::BytesV1, PathKind::JaxTransitive]
            [parts[2].parse::<usize>().unwrap() % 6];
        let mut f = gen_c19_facts(rng, false);
        let drop: Vec<u32> = match variant % 5 {
            0 => vec![1],
            1 => vec![118],
            2 => vec![1, 118],
            // 3: no term at all; 4: no term, no record
            _ => f.terms.iter().map(|t| t.id).collect(),
        };
        if variant % 5 == 4 {
            f.recs = Default::default();
        }
        if variant % 5 >= 3 {
            out.bucket("missing_root/ontology_without_any_term");
        }
        f.terms.retain(|t| !drop.contains(&t.id));
        // half of the time the remaining terms still NAME the missing root as their parent (a file from
        // which only the root's own stanza / record was lost)
        let keep_dangling = variant % 5 < 3 && rng.chance(1, 2);
        if keep_dangling {
            out.bucket("missing_root/still_referenced_as_parent");
            f.edges.retain(|(c, _)| !drop.contains(c));
        } else {
            f.edges.retain(|(c, p)| !drop.contains(c) && !drop.contains(p));
        }
        for k in 0..3 {
            for r in &mut f.recs[k] {
                r.terms.retain(|t| !drop.contains(t));
            }
        }
        jaxable(&mut f);
        let view = view_for(&f, path);
        out.sig = crate::rng::hash_u64s(&[view.content_hash(), path as u64, 0xdead]);
        out.nontrivial = true;
        out.case = Json::obj()
            .set("kind", Json::s("missing_root"))
            .set("dropped", Json::arr_u32(&drop))
            .set("path", Json::s(path.name()))
            .set("facts", f.to_json());
        bump(&mut out.events, "construct_without_root");
        let res = construct(&view, path, rng, "c19");
        out.bucket(&format!("missing_root/{}", path.name()));
        match res {
            Err(BuildFail::Err(_)) => out.comparisons += 1,
            Err(BuildFail::Panic(p)) => out.violate(
                "C19",
                &format!("missing_root_panics/{}", path.name()),
                format!("building without {drop:?} panicked instead of returning an error: {} at {}", p.message, p.location),
            ),
            Ok(_) => out.violate(
                "C19",
                &format!("missing_root_accepted/{}", path.name()),
                format!("building without term(s) {drop:?} returned Ok"),
            ),
        }
    }
}

impl Monitor for StateMonitor {
    fn id(&self) -> &'static str {
        self.prop
    }

    fn rule(&self) -> String {
        let own = match self.prop {
            "C01" => "parents/children/ancestor sets vs naive closure of the supplied edges, all ordered pairs child_of/parent_of, closure self-consistency",
            "C02" => "per-term gene/omim/orpha id sets vs {records directly annotated to the term or a descendant}, record direct terms, resolution of every id, no leak between kinds",
            "C03" => "IC per kind vs -ln(n/N) on observed counts, zero cases, finiteness, monotonicity along ancestor->descendant",
            _ => "Ontology::categories/modifier and per-term is_modifier/categories vs model; Err on missing roots",
        };
        format!(
            "A case = one FactSet (DAG shape x id assignment x annotation facts) supplied in one order through one construction path \
             (Builder minimal/defaults, binary v1/v2/v3 via an independent encoder, hp.obo+hpoa+gene files via both loaders, as_bytes round trip). \
             Catalogue: every shape x id mode. The whole read API is walked; this property judges: {own}. \
             Distinct = distinct hash of (canonical fact content, path, order); non-trivial = at least 3 terms and at least one is_a edge{}.",
            match self.prop {
                "C02" | "C03" => " and at least one annotation fact",
                _ => "",
            }
        )
    }

    fn assumptions(&self) -> Vec<String> {
        vec![
            "generated graphs are acyclic, ids < 10^7, one name per id, <= 65535 records".into(),
            "the reference model (BFS closure over BTreeSets) is correct; it self-audits anc/desc transposition on every case".into(),
            "binary inputs come from the harness' independent encoder (calibrated against the shipped v1/v2/v3 files in C08)".into(),
        ]
    }

    fn plan(&self, tier: Tier) -> Vec<String> {
        let mut v = catalogue_labels();
        if self.prop == "C19" {
            for variant in 0..5 {
                for p in 0..6 {
                    v.push(format!("noroot:{variant}:{p}"));
                }
            }
            for i in 0..tier.pick(600, 20_000) {
                v.push(format!("rndc19:{i}"));
            }
        }
        for i in 0..SHIPPED_FILES.len() {
            v.push(format!("real:{i}"));
        }
        if self.prop == "C03" {
            for i in 0..12 {
                v.push(format!("bign:{i}"));
            }
        }
        for i in 0..2 {
            v.push(format!("many:{i}"));
        }
        if matches!(self.prop, "C01" | "C02" | "C03") {
            for i in 0..tier.pick(400, 20_000) {
                v.push(format!("sub:{i}"));
            }
        }
        let n = tier.pick(6000, 150_000);
        for i in 0..n {
            v.push(format!("rnd:{i}"));
        }
        if tier == Tier::Thorough {
            for i in 0..400 {
                v.push(format!("big:{i}"));
            }
        }
        v
    }

    fn mandatory_buckets(&self, _tier: Tier) -> Vec<String> {
        let mut v: Vec<String> = ALL_PATHS.iter().map(|p| format!("path/{}", p.name())).collect();
        v.push("shipped/ontology.hpo".to_string());
        v.push("more_than_65535_terms".to_string());
        if matches!(self.prop, "C01" | "C02" | "C03") {
            v.push("path/sub_ontology".to_string());
        }
        match self.prop {
            "C01" => {
                for b in [
                    "term_with_more_than_30_ancestors",
                    "term_with_more_than_60_ancestors",
                    "term_with_more_than_10_parents",
                    "term_with_more_than_30_parents",
                    "several_roots",
                    "disconnected_singleton",
                    "redundant_edge",
                    "child_id_below_parent_id",
                    "ordered_pairs_queried",
                ] {
                    v.push(b.to_string());
                }
            }
            "C02" => {
                for b in [
                    "record_without_terms",
                    "kind_with_zero_records",
                    "repeated_fact",
                    "annotation_with_shared_ancestors",
                    "overlapping_ids_across_kinds",
                ] {
                    v.push(b.to_string());
                }
            }
            "C03" => {
                for b in [
                    "three_distinct_totals",
                    "kind_with_zero_records",
                    "term_linked_to_all_records",
                    "term_without_annotation",
                    "record_without_terms_counts_in_N",
                    "population/at_u16_max",
                    "population/above_u16",
                ] {
                    v.push(b.to_string());
                }
            }
            _ => {
                for b in [
                    "missing_root/builder_defaults",
                    "missing_root/bytes_v3",
                    "missing_root/jax",
                    "missing_root/ontology_without_any_term",
                    "missing_root/still_referenced_as_parent",
                    "obtained/clone",
                    "obtained/clone_from",
                    "obtained/minimal_then_set_default_calls",
                    "term_below_several_categories",
                    "term_below_modifier_and_phenotype",
                    "phenotype_root_not_below_all",
                    "no_modifier_roots",
                ] {
                    v.push(b.to_string());
                }
            }
        }
        v
    }

    fn run_case(&self, label: &str, seed: u64, tier: Tier) -> CaseOut {
        let mut out = CaseOut::new();
        let mut rng = Rng::for_case(seed, self.prop, label);
        if label.starts_with("noroot") {
            self.missing_root_case(label, &mut rng, &mut out);
            return out;
        }
        if label.starts_with("sub:") {
            self.sub_ontology_case(&mut rng, tier, &mut out);
            return out;
        }
        if let Some(i) = label.strip_prefix("many:") {
            self.many_terms_case(i.parse().unwrap(), &mut rng, &mut out);
            return out;
        }
        if let Some(i) = label.strip_prefix("bign:") {
            self.big_population_case(i.parse().unwrap(), &mut out);
            return out;
        }
        if let Some(i) = label.strip_prefix("real:") {
            self.shipped_case(SHIPPED_FILES[i.parse::<usize>().unwrap() % SHIPPED_FILES.len()], &mut out);
            return out;
        }
        let sc = if label.starts_with("rndc19") {
            let i: usize = label.split(':').nth(1).unwrap().parse().unwrap();
            let path = [
                PathKind::BuilderDefaults,
                PathKind::BytesV3,
                PathKind::Jax,
                PathKind::RoundTrip,
                PathKind::BytesV2,
                PathKind::BytesV1,
                PathKind::JaxTransitive,
            ][i % 7];
            let mut facts = gen_c19_facts(&mut rng, path.carries_flags());
            jaxable(&mut facts);
            let facts = drive::permute(&facts, drive::OrderMode::Shuffled, &mut rng);
            StateCase {
                view: view_for(&facts, path),
                facts,
                path,
                order: drive::OrderMode::Shuffled,
                shape: "c19_branches".into(),
                id_mode: "c19".into(),
            }
        } else {
            state_case_from_label(label, &mut rng, tier, true, None)
        };
        out.sig = crate::rng::hash_u64s(&[sc.facts.content_hash(), sc.path as u64, sc.order as u64, rng.clone().next_u64()]);
        let n_ann: usize = sc.view.recs.iter().map(|r| r.iter().map(|x| x.terms.len()).sum::<usize>()).sum();
        out.nontrivial = sc.view.terms.len() >= 3
            && !sc.view.edges.is_empty()
            && (!matches!(self.prop, "C02" | "C03") || n_ann > 0);
        out.case = case_json(&sc);
        out.bucket(&format!("path/{}", sc.path.name()));
        out.bucket(&format!("order/{:?}", sc.order));

        let built = construct(&sc.view, sc.path, &mut rng, self.prop);
        let ont = match built {
            Ok(o) => o,
            Err(e) => {
                let kind = match &e {
                    BuildFail::Err(_) => "construct_err",
                    BuildFail::Panic(_) => "construct_panic",
                };
                out.violate(self.prop, &format!("{kind}/{}", sc.path.name()), format!("valid facts rejected: {e}"));
                return out;
            }
        };
        // the same observations must hold for an ontology obtained in other documented ways:
        // a clone, a clone_from into a destination that held another ontology, or a minimal build
        // followed by the two public set_default_* calls in either order
        let ont = if label.starts_with("rnd") {
            match rng.below(40) {
                1 => {
                    out.bucket("obtained/clone");
                    ont.clone()
                }
                2 => {
                    out.bucket("obtained/clone_from");
                    // the destination held another ontology before (other terms, links, annotations and
                    // information content in the very slots that are overwritten), or nothing
                    let mut dst = if rng.chance(1, 3) {
                        Ontology::default()
                    } else {
                        let other = gen_c19_facts(&mut rng, false);
                        match drive::via_builder(&other.builder_view(), None, true) {
                            Ok(o) => o,
                            Err(_) => Ontology::default(),
                        }
                    };
                    dst.clone_from(&ont);
                    dst
                }
                3..=12 if label.starts_with("rndc19") && sc.path == PathKind::BuilderDefaults => {
                    out.bucket("obtained/minimal_then_set_default_calls");
                    let cats_first = rng.chance(1, 2);
                    // a sixth of these cases resets ONLY the categories (after customising them): the modifier
                    // list of the minimal build stays empty, the categories are the default ones
                    let only_categories = rng.chance(1, 6);
                    if only_categories {
                        match drive::via_builder(&sc.view, None, false) {
                            Ok(mut o) => {
                                let all: Vec<u32> = sc.view.terms.iter().map(|t| t.id).collect();
                                o.categories_mut().insert(*rng.pick(&all));
                                if let Err(e) = o.set_default_categories() {
                                    out.violate("C19", "set_default_calls_failed", format!("set_default_categories failed: {e}"));
                                    return out;
                                }
                                out.bucket("obtained/only_categories_reset");
                                let mut model = Model::new(&sc.view, true);
                                model.modifier_roots.clear();
                                let expected = model.expected_obs(&sc.view, &sc.view.version_string());
                                let ids: Vec<u32> = sc.view.terms.iter().map(|t| t.id).collect();
                                let observed = crate::observe::walk(&o, &ids, &mut out.events);
                                let mut diffs = Vec::new();
                                crate::observe::diff(&expected, &observed, &mut diffs, &mut out.comparisons);
                                for d in &diffs {
                                    if owns(self.prop, &d.site) {
                                        out.violate(self.prop, &format!("{}/only_categories_reset", d.site), d.detail.clone());
                                    }
                                }
                                return out;
                            }
                            Err(e) => {
                                out.violate("C19", "construct_err/builder_minimal", format!("valid facts rejected: {e}"));
                                return out;
                            }
                        }
                    }
                    match drive::via_builder(&sc.view, None, false) {
                        Ok(mut o) => {
                            // half of the time the lists were customised before (a user resetting them to the
                            // defaults): the set_default_* calls REPLACE what is there
                            if rng.chance(1, 2) {
                                let all: Vec<u32> = sc.view.terms.iter().map(|t| t.id).collect();
                                for _ in 0..rng.urange(1, 3) {
                                    o.modifier_mut().insert(*rng.pick(&all));
                                    o.categories_mut().insert(*rng.pick(&all));
                                }
                                out.bucket("obtained/customised_then_reset_to_defaults");
                            }
                            let r = guard(std::panic::AssertUnwindSafe(|| {
                                if cats_first {
                                    o.set_default_categories().and_then(|()| o.set_default_modifier())
                                } else {
                                    o.set_default_modifier().and_then(|()| o.set_default_categories())
                                }
                            }));
                            match r {
                                Ok(Ok(())) => o,
                                Ok(Err(e)) => {
                                    out.violate("C19", "set_default_calls_failed", format!("set_default_* on an ontology holding HP:1 and HP:118 failed: {e}"));
                                    return out;
                                }
                                Err(p) => {
                                    out.violate("C19", "panic:set_default_calls", format!("{} at {}", p.message, p.location));
                                    return out;
                                }
                            }
                        }
                        Err(e) => {
                            out.violate("C19", "construct_err/builder_minimal", format!("valid facts rejected: {e}"));
                            return out;
                        }
                    }
                }
                13..=15 if label.starts_with("rndc19") && sc.path == PathKind::BuilderDefaults => {
                    // the same terms under names of more than 255 bytes, written with as_bytes and loaded
                    // again: the stored names are cut (another property's business), the classification is
                    // that of the facts
                    out.bucket("obtained/long_names_then_round_trip");
                    let mut f = sc.view.clone();
                    let n = f.terms.len();
                    for _ in 0..rng.urange(1, 4) {
                        let i = rng.below(n as u64) as usize;
                        let unit = *rng.pick(&["x", "é", "漢", "name "]);
                        f.terms[i].name = unit.repeat(rng.urange(256, 700) / unit.len() + 1);
                    }
                    let first = match drive::via_builder(&f, None, true) {
                        Ok(o) => o,
                        Err(e) => {
                            out.violate("C19", "construct_err/builder_defaults", format!("valid facts rejected: {e}"));
                            return out;
                        }
                    };
                    match drive::as_bytes(&first).map_err(BuildFail::Panic).and_then(|b| drive::from_bytes(&b)) {
                        Ok(o) => o,
                        Err(e) => {
                            out.violate("C19", "construct_err/long_names_round_trip", format!("an ontology with term names of more than 255 bytes cannot be written and loaded again: {e}"));
                            return out;
                        }
                    }
                }
                _ => ont,
            }
        } else {
            ont
        };
        let (model, obs, diffs) = walk_and_diff(&sc.view, sc.path.has_defaults(), &ont, &mut out);
        structural_buckets(&model, &mut out);
        let mut foreign = 0u64;
        for d in &diffs {
            if owns(self.prop, &d.site) {
                out.violate(self.prop, &format!("{}/{}", d.site, sc.path.name()), d.detail.clone());
            } else {
                foreign += 1;
            }
        }
        if foreign > 0 {
            out.bucket_n("diffs_owned_by_other_properties", foreign);
        }
        match self.prop {
            "C01" => {
                self.pairwise_c01(&ont, &model, &mut out);
                self.self_consistency_c01(&obs, &mut out, "");
            }
            "C02" => self.c02_extra(&model, &sc.view, &mut out),
            "C03" => self.c03_checks(&model, &obs, &mut out),
            _ => {
                if sc.path.has_defaults() {
                    if model.modifier_roots.is_empty() {
                        out.bucket("no_modifier_roots");
                    }
                    if !model.anc[&118].contains(&1) {
                        out.bucket("phenotype_root_not_below_all");
                    }
                    for t in &model.ids {
                        let cats = model.term_categories(*t);
                        if cats.len() > 1 {
                            out.bucket("term_below_several_categories");
                        }
                        let sa = model.self_and_anc(*t);
                        if model.is_modifier(*t) && sa.contains(&118) {
                            out.bucket("term_below_modifier_and_phenotype");
                        }
                    }
                    // categories() must be ascending (diff compares with the ascending model list)
                }
            }
        }
        out
    }
}
