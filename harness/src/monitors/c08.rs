//! C08: the decoder honours layouts v1-v3 and never accepts truncated / extended / unknown-version
//! files. Fault enumeration: every truncation offset of every generated file.

use super::common::*;
use crate::codec::{decode, encode, EncodeOpts, Layout};
use crate::drive::{self, BuildFail, OrderMode};
use crate::gen::GenCfg;
use crate::json::Json;
use crate::observe::{self, bump};
use crate::rng::{hash_u64s, Rng};
use crate::runner::{CaseOut, Monitor, Tier};
use std::collections::BTreeMap;

pub struct C08;

const SHIPPED: [(&str, u8); 4] = [("example_v1.hpo", 1), ("example_v2.hpo", 2), ("example.hpo", 3), ("ontology.hpo", 3)];

fn shipped_path(name: &str) -> String {
    let repo = std::env::var("VERIF_REPO").unwrap_or_else(|_| "/repo".to_string());
    format!("{repo}/tests/{name}")
}

/// outcome of loading damaged bytes: rejected (Err or panic) or accepted
fn load_damaged(bytes: &[u8], out: &mut CaseOut) -> Result<&'static str, ()> {
    bump(&mut out.events, "Ontology::from_bytes(damaged)");
    match drive::from_bytes(bytes) {
        Ok(_) => Err(()),
        Err(BuildFail::Err(_)) => Ok("rejected_by_error"),
        Err(BuildFail::Panic(_)) => Ok("rejected_by_panic"),
    }
}

impl C08 {
    fn calibrate(&self, name: &str, v: u8, tier: Tier, out: &mut CaseOut) {
        let path = shipped_path(name);
        let Ok(bytes) = std::fs::read(&path) else {
            out.inconclusive = Some(format!("cannot read shipped file {path}"));
            return;
        };
        out.bucket(&format!("calibration/v{v}"));
        out.bucket(&format!("calibration/{name}"));
        let (dv, facts) = match decode(&bytes) {
            Ok(x) => x,
            Err(e) => {
                out.inconclusive = Some(format!("harness decoder cannot parse shipped file {name}: {e}"));
                return;
            }
        };
        if dv != v {
            out.inconclusive = Some(format!("shipped file {name}: decoder sees version {dv}, expected {v}"));
            return;
        }
        let (re, layout) = encode(&facts, &EncodeOpts { version: v, emit_empty_parent_records: true, parent_record_order: None, split_parent_records: None });
        if re != bytes {
            out.inconclusive = Some(format!("harness encoder does not reproduce {name} byte for byte ({} vs {} bytes)", re.len(), bytes.len()));
            return;
        }
        out.comparisons += 1;
        out.bucket("encoder_reproduces_shipped_file_bytewise");
        // the library must decode the shipped file to exactly the ontology it describes
        match drive::from_bytes(&bytes) {
            Ok(ont) => {
                let (_m, _o, diffs) = walk_and_diff(&facts.binary_view(v), true, &ont, out);
                for d in &diffs {
                    out.violate("C08", &format!("shipped_v{v}/{}", d.site), d.detail.clone());
                }
            }
            Err(e) => out.violate("C08", &format!("shipped_v{v}_rejected"), format!("{name}: {e}")),
        }
        // truncation of the shipped file: all section boundaries +-8, record starts (strided), plus a stride
        let mut offsets: Vec<usize> = Vec::new();
        let big = bytes.len() > 1_000_000; // the complete HPO (4 MB): every load parses megabytes
        for (s, e) in &layout.sections {
            for d in 0..=(if big && tier == Tier::Quick { 1usize } else { 8usize }) {
                offsets.push(s.saturating_sub(d));
                offsets.push((s + d).min(bytes.len() - 1));
                offsets.push(e.saturating_sub(d));
            }
        }
        let stride_records = if big { tier.pick(4001, 97) } else { tier.pick(97, 7) };
        for (i, r) in layout.record_starts.iter().enumerate() {
            if i % stride_records == 0 {
                offsets.push(*r);
                offsets.push(r + 4);
            }
        }
        if bytes.len() < 100_000 {
            // the 43 kB v3 file at every offset in the thorough tier, strided in quick
            let step = tier.pick(29, 1);
            offsets.extend((0..bytes.len()).step_by(step));
        } else {
            offsets.extend((0..bytes.len()).step_by(if big { tier.pick(400_009, 20_011) } else { tier.pick(40_009, 1_009) }));
        }
        offsets.sort_unstable();
        offsets.dedup();
        for k in offsets {
            if k >= bytes.len() {
                continue;
            }
            match load_damaged(&bytes[..k], out) {
                Ok(how) => out.bucket(&format!("truncation/{how}")),
                Err(()) => out.violate("C08", &format!("truncated_file_accepted/v{v}"), format!("{name} cut to {k} of {} bytes was accepted", bytes.len())),
            }
            out.bucket("truncation_offsets_tried");
        }
        out.sig = hash_u64s(&[0xca11b, u64::from(v), bytes.len() as u64]);
        out.nontrivial = true;
        out.case = Json::obj().set("shipped_file", Json::s(name)).set("bytes", Json::us(bytes.len())).set("facts", facts.summary());
    }

    fn fault_case(&self, label: &str, rng: &mut Rng, tier: Tier, out: &mut CaseOut) {
        let idx: u64 = label.split(':').nth(1).unwrap().parse().unwrap_or(0);
        let v: u8 = [3, 2, 1][(idx % 3) as usize];
        let cfg = GenCfg {
            n_min: 2,
            n_max: if rng.chance(1, 8) { tier.pick(40, 80) } else { 16 },
            defaults: true,
            flags: true,
            max_recs: 5,
            ..GenCfg::default()
        };
        let facts = crate::gen::gen_facts(rng, &cfg);
        let mut facts = drive::permute(&facts, OrderMode::Shuffled, rng);
        // names at the limit of the one-byte length field (term and gene names: 240..=255 bytes)
        if rng.chance(1, 3) {
            let i = rng.usize_below(facts.terms.len());
            if facts.terms[i].id != 1 && facts.terms[i].id != 118 {
                let tail = *rng.pick(&["", "é", "€", "😀"]);
                let total = *rng.pick(&[240usize, 246, 247, 248, 254, 255]);
                facts.terms[i].name = format!("{}{tail}", "n".repeat(total - tail.len()));
            }
            if let Some(g) = facts.recs[0].first_mut() {
                let total = *rng.pick(&[240usize, 246, 247, 254, 255]);
                g.name = "G".repeat(total);
            }
            if let Some(d) = facts.recs[1].first_mut() {
                d.name = "D".repeat(*rng.pick(&[255usize, 256, 300, 1000]));
            }
            out.bucket("layout/names_at_length_limit");
            // boundary contents at the START of sections as well: half of these files begin with the
            // longest records a section can hold
            if rng.chance(1, 2) {
                let t = facts.terms.remove(i);
                facts.terms.insert(0, t);
                if facts.terms[0].id != 1 && facts.terms[0].id != 118 {
                    let tail = *rng.pick(&["", "é", "€"]);
                    facts.terms[0].name = format!("{}{tail}", "f".repeat(255 - tail.len()));
                }
                out.bucket("layout/longest_record_first");
            }
        }
        // boundary contents at the END of sections: the last term / gene / disease record is as short as
        // a record can be (empty name, no terms) in a third of the files
        if rng.chance(1, 3) {
            if let Some(i) = (0..facts.terms.len()).rev().find(|i| facts.terms[*i].id != 1 && facts.terms[*i].id != 118) {
                facts.terms[i].name = String::new();
                let t = facts.terms.remove(i);
                facts.terms.push(t);
            }
            for k in 0..3 {
                let id = 4_000_000 + k as u32;
                facts.recs[k].retain(|r| r.id != id);
                facts.recs[k].push(crate::facts::RecFact { id, name: String::new(), terms: vec![] });
            }
            out.bucket("layout/minimal_last_records");
        }
        let view = facts.binary_view(v);
        let emit_empty = rng.chance(2, 3);
        let parent_order = if rng.chance(1, 2) { Some(rng.next_u64()) } else { None };
        let split = if rng.chance(1, 3) { Some(rng.next_u64()) } else { None };
        let (bytes, layout): (Vec<u8>, Layout) = encode(&view, &EncodeOpts { version: v, emit_empty_parent_records: emit_empty, parent_record_order: parent_order, split_parent_records: split });
        out.sig = hash_u64s(&[view.content_hash(), u64::from(v), u64::from(emit_empty)]);
        out.nontrivial = view.terms.len() >= 3;
        out.case = Json::obj()
            .set("version", Json::u(u64::from(v)))
            .set("bytes", Json::us(bytes.len()))
            .set("emit_empty_parent_records", Json::Bool(emit_empty))
            .set("facts", view.to_json());
        out.bucket(&format!("layout/v{v}"));
        if !emit_empty {
            out.bucket("layout/parent_records_only_for_terms_with_parents");
        }

        // (a) the intact file decodes to exactly what it describes
        bump(&mut out.events, "Ontology::from_bytes");
        let ids: Vec<u32> = view.terms.iter().map(|t| t.id).collect();
        let intact = match drive::from_bytes(&bytes) {
            Ok(ont) => {
                let (_m, obs, diffs) = walk_and_diff(&view, true, &ont, out);
                for d in &diffs {
                    out.violate("C08", &format!("decode_v{v}/{}", d.site), d.detail.clone());
                }
                Some(obs)
            }
            Err(e) => {
                out.violate("C08", &format!("valid_v{v}_rejected"), format!("valid v{v} file rejected: {e}"));
                None
            }
        };
        // self-check of the harness codec on its own output
        match decode(&bytes) {
            Ok((dv, f2)) => {
                if dv != v || f2.content_hash() != view.content_hash() {
                    out.inconclusive = Some("harness codec does not round-trip its own output".into());
                }
            }
            Err(e) => out.inconclusive = Some(format!("harness decoder rejects harness encoder output: {e}")),
        }

        // (b) record order inside sections is irrelevant
        if let Some(first) = &intact {
            for _ in 0..2 {
                let perm = drive::permute(&view, OrderMode::Shuffled, rng);
                let (b2, _) = encode(&perm, &EncodeOpts { version: v, emit_empty_parent_records: emit_empty, parent_record_order: Some(rng.next_u64()), split_parent_records: if rng.chance(1, 2) { Some(rng.next_u64()) } else { None } });
                match drive::from_bytes(&b2) {
                    Ok(o2) => {
                        let obs2 = observe::walk(&o2, &ids, &mut out.events);
                        let mut d = Vec::new();
                        observe::diff(first, &obs2, &mut d, &mut out.comparisons);
                        for x in &d {
                            out.violate("C08", &format!("record_order_matters_v{v}/{}", x.site), x.detail.clone());
                        }
                        out.bucket("record_permutations");
                    }
                    Err(e) => out.violate("C08", &format!("record_order_rejected_v{v}"), format!("{e}")),
                }
            }
        }

        // (c) every proper prefix must be rejected
        for k in 0..bytes.len() {
            match load_damaged(&bytes[..k], out) {
                Ok(how) => out.bucket(&format!("truncation/{how}")),
                Err(()) => {
                    let sec = layout.sections.iter().position(|(s, e)| k >= *s && k <= *e);
                    let at_boundary = layout.sections.iter().any(|(s, e)| k == *s || k == *e);
                    out.violate(
                        "C08",
                        &format!("truncated_file_accepted/v{v}"),
                        format!("prefix of {k} of {} bytes accepted (section {sec:?}, at section boundary: {at_boundary})", bytes.len()),
                    );
                }
            }
        }
        out.bucket_n("truncation_offsets_tried", bytes.len() as u64);

        // (d) extra bytes after a valid file
        let mut suffixes: Vec<(String, Vec<u8>)> = Vec::new();
        for n in 1..=8usize {
            suffixes.push((format!("zeros{n}"), vec![0u8; n]));
            suffixes.push((format!("ff{n}"), vec![0xffu8; n]));
            suffixes.push((format!("random{n}"), (0..n).map(|_| rng.below(256) as u8).collect()));
        }
        suffixes.push(("empty_section".into(), vec![0, 0, 0, 0]));
        suffixes.push(("two_empty_sections".into(), vec![0; 8]));
        if let Some((s, e)) = layout.sections.last() {
            suffixes.push(("copy_of_last_section".into(), bytes[*s..*e].to_vec()));
        }
        if let Some((s, e)) = layout.sections.first() {
            suffixes.push(("copy_of_term_section".into(), bytes[*s..*e].to_vec()));
        }
        // what text tools append to a file: line ends, blanks, an end-of-file mark. Both entry points
        // (bytes, and a file on disk read by from_binary) must refuse them.
        for (name, sfx) in [("lf", &b"\n"[..]), ("crlf", &b"\r\n"[..]), ("blank", &b" "[..]), ("lf_lf", &b"\n\n"[..]), ("ctrl_z", &b"\x1a"[..]), ("nul_lf", &b"\0\n"[..])] {
            let mut b = bytes.clone();
            b.extend_from_slice(sfx);
            for via_file in [false, true] {
                bump(&mut out.events, if via_file { "Ontology::from_binary(damaged)" } else { "Ontology::from_bytes(damaged)" });
                match drive::from_bytes_route(&b, via_file) {
                    Ok(_) => out.violate(
                        "C08",
                        &format!("extended_file_accepted/v{v}/{}", if via_file { "from_binary" } else { "from_bytes" }),
                        format!("valid v{v} file followed by {name} ({} bytes) was accepted by {}", sfx.len(), if via_file { "Ontology::from_binary" } else { "Ontology::from_bytes" }),
                    ),
                    Err(BuildFail::Err(_)) => out.bucket("text_suffix/rejected_by_error"),
                    Err(BuildFail::Panic(_)) => out.bucket("text_suffix/rejected_by_panic"),
                }
                out.bucket("suffixes_tried");
            }
        }
        for (name, sfx) in suffixes {
            let mut b = bytes.clone();
            b.extend_from_slice(&sfx);
            match load_damaged(&b, out) {
                Ok(how) => out.bucket(&format!("suffix/{how}")),
                Err(()) => out.violate("C08", &format!("extended_file_accepted/v{v}"), format!("valid v{v} file followed by {name} ({} bytes) was accepted", sfx.len())),
            }
            out.bucket("suffixes_tried");
        }

        // (e') a v1 body behind a header: no documented layout has the magic followed by version 1 (v1
        // files have no header at all), nor by any other value with a v1 body
        if v == 1 {
            for (name, head) in [
                ("HPO\\x01", vec![b'H', b'P', b'O', 1u8]),
                ("HPO\\x01 + release bytes", vec![b'H', b'P', b'O', 1, 0x07, 0xE8, 1, 1]),
                ("HPO\\x00", vec![b'H', b'P', b'O', 0]),
                ("HPO\\x04", vec![b'H', b'P', b'O', 4]),
                ("HPO\\x02 (no release bytes)", vec![b'H', b'P', b'O', 2]),
            ] {
                let mut b = head.clone();
                b.extend_from_slice(&bytes);
                match load_damaged(&b, out) {
                    Ok(how) => out.bucket(&format!("header_before_v1_body/{how}")),
                    Err(()) => out.violate("C08", "bad_version_accepted/header_before_v1_body", format!("a v1 body behind the header {name} was accepted")),
                }
                out.bucket("version_bytes_tried");
            }
        }
        // (e) version byte
        if v >= 2 {
            for vb in 0..=255u8 {
                if vb == v {
                    continue;
                }
                let mut b = bytes.clone();
                b[3] = vb;
                match load_damaged(&b, out) {
                    Ok(how) => out.bucket(&format!("version_byte/{how}")),
                    Err(()) => out.violate(
                        "C08",
                        &format!("bad_version_accepted/file_v{v}_as_{}", if vb == 2 || vb == 3 { format!("v{vb}") } else { "unsupported".to_string() }),
                        format!("v{v} file relabelled with version byte {vb} was accepted"),
                    ),
                }
                out.bucket("version_bytes_tried");
            }
        }
    }
}

impl Monitor for C08 {
    fn id(&self) -> &'static str {
        "C08"
    }
    fn level(&self) -> &'static str {
        "fault_enumeration"
    }
    fn rule(&self) -> String {
        "Calibration (every run): the harness' independent decoder parses the shipped tests/example_v1.hpo, example_v2.hpo, example.hpo, its encoder re-emits them byte-identically and the library's view of each file equals the model of the decoded facts. \
         A fault case = one generated FactSet (2-40 terms, all record kinds, flags) encoded as v1, v2 or v3 by the independent encoder (records shuffled; parent records for all terms or only for terms with parents): the intact file must decode to exactly the model; two further record permutations must give the same observation; from_bytes(&B[..k]) must be rejected (Err or documented panic) for EVERY k in 0..len; 28 suffixes (1-8 bytes of 00/ff/random, empty section(s), copies of whole sections) must be rejected, and so must six text-tool suffixes (LF, CRLF, blank, LF LF, ^Z, NUL LF) through from_bytes AND through a file read by from_binary; all 255 other version-byte values must be rejected, and so must a v1 body behind a header (magic + 0, 1, 2 or 4). \
         bigname cases: valid v2 / v3 files with disease names of 65 535 bytes to 1 MiB (1- to 3-byte characters) decode to the model through both entry points. Distinct = (fact content, version, parent-record style); non-trivial = >= 3 terms."
            .into()
    }
    fn assumptions(&self) -> Vec<String> {
        vec![
            "rejection = Err(_) or a panic (documented on from_bytes); a hang or abort would be inconclusive".into(),
            "the encoder is tied to real artefacts of each version by the byte-identical calibration step".into(),
        ]
    }
    fn plan(&self, tier: Tier) -> Vec<String> {
        let mut v: Vec<String> = (0..SHIPPED.len()).map(|i| format!("calib:{i}")).collect();
        for i in 0..tier.pick(70, 6000) {
            v.push(format!("rnd:{i}"));
        }
        for i in 0..tier.pick(3, 40) {
            v.push(format!("bigname:{i}"));
        }
        v
    }
    fn mandatory_buckets(&self, _tier: Tier) -> Vec<String> {
        [
            "calibration/v1",
            "calibration/v2",
            "calibration/v3",
            "calibration/ontology.hpo",
            "encoder_reproduces_shipped_file_bytewise",
            "layout/v1",
            "layout/v2",
            "layout/v3",
            "layout/parent_records_only_for_terms_with_parents",
            "layout/minimal_last_records",
            "layout/names_at_length_limit",
            "truncation_offsets_tried",
            "suffixes_tried",
            "version_bytes_tried",
            "record_permutations",
        ]
        .iter()
        .map(|s| (*s).to_string())
        .collect()
    }
    fn extra_coverage(&self, _tier: Tier, b: &BTreeMap<String, u64>) -> Vec<(String, Json)> {
        let g = |k: &str| b.get(k).copied().unwrap_or(0);
        vec![
            ("exhaustive".into(), Json::Bool(false)),
            (
                "fault_points".into(),
                Json::obj()
                    .set("truncation_offsets", Json::u(g("truncation_offsets_tried")))
                    .set("rejected_by_error", Json::u(g("truncation/rejected_by_error")))
                    .set("rejected_by_panic", Json::u(g("truncation/rejected_by_panic")))
                    .set("suffixes", Json::u(g("suffixes_tried")))
                    .set("version_bytes", Json::u(g("version_bytes_tried")))
                    .set("note", Json::s("offsets are enumerated exhaustively per generated file; files are sampled")),
            ),
        ]
    }
    fn run_case(&self, label: &str, seed: u64, tier: Tier) -> CaseOut {
        let mut out = CaseOut::new();
        let mut rng = Rng::for_case(seed, "C08", label);
        if let Some(i) = label.strip_prefix("calib:") {
            let (name, v) = SHIPPED[i.parse::<usize>().unwrap() % SHIPPED.len()];
            self.calibrate(name, v, tier, &mut out);
        } else if label.starts_with("bigname:") {
            self.big_name_case(&mut rng, &mut out);
        } else {
            self.fault_case(label, &mut rng, tier, &mut out);
        }
        out
    }
}

impl C08 {
    /// Valid files whose disease records use the full width of their four-byte name length (term and
    /// gene names have a one-byte length): the intact file decodes to what it describes. No fault
    /// enumeration here (the files are large).
    fn big_name_case(&self, rng: &mut Rng, out: &mut CaseOut) {
        let cfg = GenCfg { n_min: 3, n_max: 8, defaults: true, flags: true, max_recs: 3, ..GenCfg::default() };
        let mut facts = crate::gen::gen_facts(rng, &cfg);
        let lens = [65_535usize, 65_536, 65_537, 70_000, 131_072, 1 << 20];
        for k in 1..3 {
            let id = 5_000_000 + k as u32;
            facts.recs[k].retain(|r| r.id != id);
            let unit = *rng.pick(&["D", "é", "名"]);
            let n = *rng.pick(&lens);
            let name = unit.repeat(n / unit.len());
            let terms: Vec<u32> = facts.terms.iter().map(|t| t.id).filter(|_| rng.chance(1, 2)).collect();
            let pos = rng.usize_below(facts.recs[k].len() + 1);
            facts.recs[k].insert(pos, crate::facts::RecFact { id, name, terms });
        }
        out.nontrivial = true;
        for v in [2u8, 3] {
            let view = facts.binary_view(v);
            let (bytes, _) = encode(&view, &EncodeOpts { version: v, emit_empty_parent_records: true, parent_record_order: None, split_parent_records: None });
            out.sig = hash_u64s(&[view.content_hash(), u64::from(v), 77]);
            out.case = Json::obj().set("version", Json::u(u64::from(v))).set("bytes", Json::us(bytes.len()));
            out.bucket("layout/disease_names_of_64_KiB_and_more");
            for via_file in [false, true] {
                bump(&mut out.events, if via_file { "Ontology::from_binary" } else { "Ontology::from_bytes" });
                match drive::from_bytes_route(&bytes, via_file) {
                    Ok(ont) => {
                        let (_m, _obs, diffs) = walk_and_diff(&view, true, &ont, out);
                        for d in &diffs {
                            out.violate("C08", &format!("decode_v{v}/{}", d.site), d.detail.clone());
                        }
                    }
                    Err(e) => out.violate("C08", &format!("valid_v{v}_rejected"), format!("valid v{v} file with a disease name of 64 KiB or more rejected: {e}")),
                }
            }
        }
    }
}
