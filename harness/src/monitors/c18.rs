//! C18: ontology comparison reports exactly the differences.

use crate::drive;
use crate::facts::{FactSet, RecFact, TermFact, KIND_NAMES};
use crate::gen::GenCfg;
use crate::json::Json;
use crate::observe::{bump, guard};
use crate::rng::{hash_u64s, Rng};
use crate::runner::{CaseOut, Monitor, Tier};
use hpo::annotations::{AnnotationId, Disease};
use hpo::comparison::{AnnotationDelta, HpoTermDelta};
use hpo::Ontology;
use std::collections::{BTreeMap, BTreeSet};

pub struct C18;

const EDITS: [&str; 14] = [
    "add_record_with_existing_name",
    "change_record_id",
    "rename_term",
    "add_parent",
    "remove_parent",
    "flip_obsolete",
    "change_replacement",
    "add_annotation",
    "remove_annotation",
    "rename_record",
    "add_record",
    "remove_record",
    "add_term",
    "remove_term",
];

#[derive(Debug, Clone, PartialEq, Default)]
struct TermDelta {
    name: Option<(String, String)>,
    added_parents: BTreeSet<u32>,
    removed_parents: BTreeSet<u32>,
    obsolete: Option<(bool, bool)>,
    replacement: Option<(Option<u32>, Option<u32>)>,
}

#[derive(Debug, Clone, PartialEq, Default)]
struct RecDelta {
    id: String,
    name: Option<(String, String)>,
    added: BTreeSet<u32>,
    removed: BTreeSet<u32>,
    n_terms: (usize, usize),
}

#[derive(Debug, Clone, PartialEq, Default)]
struct Diff {
    added_terms: BTreeSet<u32>,
    removed_terms: BTreeSet<u32>,
    changed_terms: BTreeMap<u32, TermDelta>,
    added_recs: [BTreeSet<u32>; 3],
    removed_recs: [BTreeSet<u32>; 3],
    changed_recs: [BTreeMap<u32, RecDelta>; 3],
}

fn parents_of(f: &FactSet) -> BTreeMap<u32, BTreeSet<u32>> {
    let mut m: BTreeMap<u32, BTreeSet<u32>> = f.terms.iter().map(|t| (t.id, BTreeSet::new())).collect();
    for (c, p) in &f.edges {
        m.entry(*c).or_default().insert(*p);
    }
    m
}

fn model_diff(old: &FactSet, new: &FactSet) -> Diff {
    let mut d = Diff::default();
    let oi = old.term_ids();
    let ni = new.term_ids();
    d.added_terms = ni.difference(&oi).copied().collect();
    d.removed_terms = oi.difference(&ni).copied().collect();
    let (op, np) = (parents_of(old), parents_of(new));
    // the library compares RESOLVED replacements
    let resolve = |f: &FactSet, ids: &BTreeSet<u32>, t: &TermFact| t.replaced_by.filter(|r| ids.contains(r) && f.term(*r).is_some());
    for t in &old.terms {
        let Some(n) = new.term(t.id) else { continue };
        let mut td = TermDelta::default();
        if t.name != n.name {
            td.name = Some((t.name.clone(), n.name.clone()));
        }
        td.added_parents = np[&t.id].difference(&op[&t.id]).copied().collect();
        td.removed_parents = op[&t.id].difference(&np[&t.id]).copied().collect();
        if t.obsolete != n.obsolete {
            td.obsolete = Some((t.obsolete, n.obsolete));
        }
        let (ro, rn) = (resolve(old, &oi, t), resolve(new, &ni, n));
        if ro != rn {
            td.replacement = Some((ro, rn));
        }
        if td != TermDelta::default() {
            d.changed_terms.insert(t.id, td);
        }
    }
    for k in 0..3 {
        let o: BTreeMap<u32, &RecFact> = old.recs[k].iter().map(|r| (r.id, r)).collect();
        let n: BTreeMap<u32, &RecFact> = new.recs[k].iter().map(|r| (r.id, r)).collect();
        d.added_recs[k] = n.keys().filter(|x| !o.contains_key(x)).copied().collect();
        d.removed_recs[k] = o.keys().filter(|x| !n.contains_key(x)).copied().collect();
        for (id, ro) in &o {
            let Some(rn) = n.get(id) else { continue };
            let to: BTreeSet<u32> = ro.terms.iter().copied().collect();
            let tn: BTreeSet<u32> = rn.terms.iter().copied().collect();
            let rd = RecDelta {
                id: match k {
                    0 => format!("NCBI-GeneID:{id}"),
                    1 => format!("OMIM:{id}"),
                    _ => format!("ORPHA:{id}"),
                },
                name: if ro.name == rn.name { None } else { Some((ro.name.clone(), rn.name.clone())) },
                added: tn.difference(&to).copied().collect(),
                removed: to.difference(&tn).copied().collect(),
                n_terms: (to.len(), tn.len()),
            };
            if rd.name.is_some() || !rd.added.is_empty() || !rd.removed.is_empty() {
                d.changed_recs[k].insert(*id, rd);
            }
        }
    }
    d
}

fn term_delta(t: &HpoTermDelta) -> (u32, TermDelta) {
    (
        t.id().as_u32(),
        TermDelta {
            name: t.changed_name().cloned(),
            added_parents: t.added_parents().map(|v| v.iter().map(|x| x.as_u32()).collect()).unwrap_or_default(),
            removed_parents: t.removed_parents().map(|v| v.iter().map(|x| x.as_u32()).collect()).unwrap_or_default(),
            obsolete: t.changed_obsolete(),
            replacement: t.changed_replacement().map(|(a, b)| (a.map(|x| x.as_u32()), b.map(|x| x.as_u32()))),
        },
    )
}

fn rec_delta(a: &AnnotationDelta) -> RecDelta {
    RecDelta {
        id: a.id().to_string(),
        name: a.changed_name().cloned(),
        added: a.added_terms().map(|v| v.iter().map(|x| x.as_u32()).collect()).unwrap_or_default(),
        removed: a.removed_terms().map(|v| v.iter().map(|x| x.as_u32()).collect()).unwrap_or_default(),
        n_terms: a.n_terms(),
    }
}

fn rec_num(id: &str) -> u32 {
    id.rsplit(':').next().and_then(|x| x.parse().ok()).unwrap_or(u32::MAX)
}

fn observed_diff(a: &Ontology, b: &Ontology) -> (Diff, Vec<String>) {
    let c = a.compare(b);
    let mut notes = Vec::new();
    let mut d = Diff::default();
    let ids = |v: Vec<hpo::HpoTerm>, what: &str, notes: &mut Vec<String>| -> BTreeSet<u32> {
        let s: BTreeSet<u32> = v.iter().map(|t| t.id().as_u32()).collect();
        if s.len() != v.len() {
            notes.push(format!("{what} lists a term twice"));
        }
        s
    };
    d.added_terms = ids(c.added_hpo_terms(), "added_hpo_terms", &mut notes);
    d.removed_terms = ids(c.removed_hpo_terms(), "removed_hpo_terms", &mut notes);
    for t in c.changed_hpo_terms() {
        let (id, td) = term_delta(&t);
        if d.changed_terms.insert(id, td).is_some() {
            notes.push(format!("changed_hpo_terms lists {id} twice"));
        }
    }
    d.added_recs[0] = c.added_genes().iter().map(|g| g.id().as_u32()).collect();
    d.removed_recs[0] = c.removed_genes().iter().map(|g| g.id().as_u32()).collect();
    d.added_recs[1] = c.added_omim_diseases().iter().map(|g| g.id().as_u32()).collect();
    d.removed_recs[1] = c.removed_omim_diseases().iter().map(|g| g.id().as_u32()).collect();
    d.added_recs[2] = c.added_orpha_diseases().iter().map(|g| g.id().as_u32()).collect();
    d.removed_recs[2] = c.removed_orpha_diseases().iter().map(|g| g.id().as_u32()).collect();
    for (k, v) in [c.changed_genes(), c.changed_omim_diseases(), c.changed_orpha_diseases()].iter().enumerate() {
        for a in v {
            let rd = rec_delta(a);
            d.changed_recs[k].insert(rec_num(&rd.id), rd);
        }
    }
    (d, notes)
}

fn mirror(d: &Diff) -> Diff {
    let mut m = Diff {
        added_terms: d.removed_terms.clone(),
        removed_terms: d.added_terms.clone(),
        ..Default::default()
    };
    for (id, t) in &d.changed_terms {
        m.changed_terms.insert(
            *id,
            TermDelta {
                name: t.name.clone().map(|(a, b)| (b, a)),
                added_parents: t.removed_parents.clone(),
                removed_parents: t.added_parents.clone(),
                obsolete: t.obsolete.map(|(a, b)| (b, a)),
                replacement: t.replacement.map(|(a, b)| (b, a)),
            },
        );
    }
    for k in 0..3 {
        m.added_recs[k] = d.removed_recs[k].clone();
        m.removed_recs[k] = d.added_recs[k].clone();
        for (id, r) in &d.changed_recs[k] {
            m.changed_recs[k].insert(
                *id,
                RecDelta {
                    id: r.id.clone(),
                    name: r.name.clone().map(|(a, b)| (b, a)),
                    added: r.removed.clone(),
                    removed: r.added.clone(),
                    n_terms: (r.n_terms.1, r.n_terms.0),
                },
            );
        }
    }
    m
}

/// apply one edit; returns false if the edit was not applicable
/// a different name: suffix, changed ASCII case only, trailing blank, or a replaced first character
fn renamed(name: &str, id: u32, rng: &mut Rng) -> String {
    if name.len() > 200 {
        return format!("renamed {id}");
    }
    let flipped: String = name.chars().map(|c| if c.is_ascii_lowercase() { c.to_ascii_uppercase() } else if c.is_ascii_uppercase() { c.to_ascii_lowercase() } else { c }).collect();
    let cand = match rng.below(5) {
        0 => flipped,
        1 => name.to_ascii_uppercase(),
        2 => format!("{name} "),
        3 => {
            let mut cs: Vec<char> = name.chars().collect();
            if let Some(c) = cs.first_mut() {
                *c = if *c == 'Z' { 'Y' } else { 'Z' };
            }
            cs.into_iter().collect()
        }
        _ => format!("{name} (renamed)"),
    };
    if cand == name {
        format!("{name}x")
    } else {
        cand
    }
}

fn apply_edit(f: &mut FactSet, edit: &str, rng: &mut Rng) -> bool {
    let protected = |id: u32| id == 1 || id == 118;
    let ids: Vec<u32> = f.terms.iter().map(|t| t.id).collect();
    let m = crate::model::Model::new(f, false);
    match edit {
        "rename_term" => {
            let i = rng.usize_below(f.terms.len());
            f.terms[i].name = renamed(&f.terms[i].name, f.terms[i].id, rng);
            true
        }
        "add_parent" => {
            // child c, new parent p that is not a descendant of c (keeps the graph acyclic)
            for _ in 0..20 {
                let c = *rng.pick(&ids);
                let p = *rng.pick(&ids);
                if c != p && !protected(c) && !m.desc[&c].contains(&p) && !m.parents[&c].contains(&p) {
                    f.edges.push((c, p));
                    return true;
                }
            }
            false
        }
        "remove_parent" => {
            let cand: Vec<usize> = (0..f.edges.len()).filter(|i| !(f.edges[*i] == (118, 1))).collect();
            if cand.is_empty() {
                return false;
            }
            let e = f.edges[*rng.pick(&cand)];
            f.edges.retain(|x| *x != e);
            true
        }
        "flip_obsolete" => {
            let i = rng.usize_below(f.terms.len());
            f.terms[i].obsolete = !f.terms[i].obsolete;
            true
        }
        "change_replacement" => {
            let i = rng.usize_below(f.terms.len());
            let cur = f.terms[i].replaced_by;
            let new = match rng.below(3) {
                0 => None,
                _ => Some(*rng.pick(&ids)).filter(|r| *r != 0 && *r != f.terms[i].id),
            };
            if new == cur {
                return false;
            }
            f.terms[i].replaced_by = new;
            true
        }
        "add_annotation" => {
            let k = rng.usize_below(3);
            if f.recs[k].is_empty() {
                return false;
            }
            let i = rng.usize_below(f.recs[k].len());
            let t = *rng.pick(&ids);
            if f.recs[k][i].terms.contains(&t) {
                return false;
            }
            f.recs[k][i].terms.push(t);
            true
        }
        "remove_annotation" => {
            let k = rng.usize_below(3);
            let cand: Vec<usize> = (0..f.recs[k].len()).filter(|i| !f.recs[k][*i].terms.is_empty()).collect();
            if cand.is_empty() {
                return false;
            }
            let i = *rng.pick(&cand);
            let t = *rng.pick(&f.recs[k][i].terms);
            f.recs[k][i].terms.retain(|x| *x != t);
            true
        }
        "rename_record" => {
            let k = rng.usize_below(3);
            if f.recs[k].is_empty() {
                return false;
            }
            let i = rng.usize_below(f.recs[k].len());
            f.recs[k][i].name = renamed(&f.recs[k][i].name, f.recs[k][i].id, rng);
            true
        }
        "add_record_with_existing_name" => {
            // a NEW record (new id) that carries the name of an existing record of the same kind
            let k = rng.usize_below(3);
            if f.recs[k].is_empty() {
                return false;
            }
            let name = rng.pick(&f.recs[k]).name.clone();
            let id = rng.range(200, 230) as u32;
            if f.recs[k].iter().any(|r| r.id == id) {
                return false;
            }
            f.recs[k].push(RecFact { id, name, terms: if rng.chance(1, 2) { vec![] } else { vec![*rng.pick(&ids)] } });
            true
        }
        "change_record_id" => {
            // same name and terms under another id = one record removed, one added
            let k = rng.usize_below(3);
            if f.recs[k].is_empty() {
                return false;
            }
            let i = rng.usize_below(f.recs[k].len());
            let id = rng.range(300, 330) as u32;
            if f.recs[k].iter().any(|r| r.id == id) {
                return false;
            }
            f.recs[k][i].id = id;
            true
        }
        "add_record" => {
            let k = rng.usize_below(3);
            let id = rng.range(100, 120) as u32;
            if f.recs[k].iter().any(|r| r.id == id) {
                return false;
            }
            f.recs[k].push(RecFact { id, name: format!("new {} {id}", KIND_NAMES[k]), terms: if rng.chance(1, 3) { vec![] } else { vec![*rng.pick(&ids)] } });
            true
        }
        "remove_record" => {
            let k = rng.usize_below(3);
            if f.recs[k].is_empty() {
                return false;
            }
            let i = rng.usize_below(f.recs[k].len());
            f.recs[k].remove(i);
            true
        }
        "add_term" => {
            let id = rng.range(3_000_000, 3_000_100) as u32;
            if ids.contains(&id) {
                return false;
            }
            f.terms.push(TermFact { id, name: format!("added {id}"), obsolete: rng.chance(1, 4), replaced_by: None });
            if rng.chance(2, 3) {
                f.edges.push((id, *rng.pick(&ids)));
            }
            true
        }
        "remove_term" => {
            let cand: Vec<u32> = ids.iter().copied().filter(|i| !protected(*i)).collect();
            if cand.is_empty() {
                return false;
            }
            let t = *rng.pick(&cand);
            f.terms.retain(|x| x.id != t);
            f.edges.retain(|(c, p)| *c != t && *p != t);
            for k in 0..3 {
                for r in &mut f.recs[k] {
                    r.terms.retain(|x| *x != t);
                }
            }
            true
        }
        _ => false,
    }
}

/// replacements must resolve in both ontologies (the library compares resolved replacements)
fn sanitize_replacements(old: &mut FactSet, new: &mut FactSet) {
    let common: BTreeSet<u32> = old.term_ids().intersection(&new.term_ids()).copied().collect();
    let either: BTreeSet<u32> = old.term_ids().union(&new.term_ids()).copied().collect();
    for f in [old, new] {
        for t in &mut f.terms {
            if let Some(r) = t.replaced_by {
                // a replacement must resolve in both ontologies or in neither (dangling on both sides)
                if !common.contains(&r) && either.contains(&r) {
                    t.replaced_by = None;
                }
            }
        }
    }
}

impl C18 {
    fn compare_sets(&self, what: &str, exp: &Diff, got: &Diff, out: &mut CaseOut) {
        macro_rules! cmp {
            ($site:expr, $e:expr, $g:expr) => {{
                out.check($e == $g, "C18", &format!("{what}/{}", $site), || format!("{}: expected {:?}, compare() reports {:?}", $site, $e, $g));
            }};
        }
        cmp!("added_hpo_terms", exp.added_terms, got.added_terms);
        cmp!("removed_hpo_terms", exp.removed_terms, got.removed_terms);
        let ek: BTreeSet<u32> = exp.changed_terms.keys().copied().collect();
        let gk: BTreeSet<u32> = got.changed_terms.keys().copied().collect();
        cmp!("changed_hpo_terms", ek, gk);
        for (id, e) in &exp.changed_terms {
            if let Some(g) = got.changed_terms.get(id) {
                out.check(e == g, "C18", &format!("{what}/term_delta"), || format!("term {id}: expected delta {e:?}, got {g:?}"));
            }
        }
        for k in 0..3 {
            let kn = KIND_NAMES[k];
            cmp!(format!("added_{kn}"), exp.added_recs[k], got.added_recs[k]);
            cmp!(format!("removed_{kn}"), exp.removed_recs[k], got.removed_recs[k]);
            let ek: BTreeSet<u32> = exp.changed_recs[k].keys().copied().collect();
            let gk: BTreeSet<u32> = got.changed_recs[k].keys().copied().collect();
            cmp!(format!("changed_{kn}"), ek, gk);
            for (id, e) in &exp.changed_recs[k] {
                if let Some(g) = got.changed_recs[k].get(id) {
                    out.check(e == g, "C18", &format!("{what}/annotation_delta/{kn}"), || format!("{kn} {id}: expected delta {e:?}, got {g:?}"));
                }
            }
        }
    }
}

impl Monitor for C18 {
    fn id(&self) -> &'static str {
        "C18"
    }
    fn rule(&self) -> String {
        "A case = an (old, new) pair of ontologies built through the v3 decoder: new = old plus exactly one edit of each of the 12 kinds (catalogue: rename term, parent added/removed, obsolete flipped, replacement changed, annotation added/removed, record renamed/added/removed, term added/removed) or plus a random bundle of 1-6 edits. \
         All twelve Comparison accessors and every HpoTermDelta / AnnotationDelta accessor are compared with a model diff of the two FactSets (ids as sets); a.compare(a), a.compare(round-trip of a) must be empty; b.compare(a) must be the mirror image. Distinct = (old content, new content) hash; non-trivial = old != new."
            .into()
    }
    fn assumptions(&self) -> Vec<String> {
        vec!["replacement ids resolve in both ontologies (the library compares resolved replacements)".into()]
    }
    fn plan(&self, tier: Tier) -> Vec<String> {
        let mut v = Vec::new();
        for rep in 0..3 {
            for e in 0..EDITS.len() {
                v.push(format!("edit:{e}:{rep}"));
            }
        }
        for i in 0..tier.pick(2000, 50_000) {
            v.push(format!("rnd:{i}"));
        }
        v
    }
    fn mandatory_buckets(&self, _tier: Tier) -> Vec<String> {
        let mut v: Vec<String> = EDITS.iter().map(|e| format!("single_edit/{e}")).collect();
        v.push("self_comparisons".into());
        v.push("mirror_comparisons".into());
        v.push("name_at_255_byte_limit".into());
        v.push("versions/new_is_older".into());
        v.push("versions/new_is_younger".into());
        v
    }
    fn run_case(&self, label: &str, seed: u64, tier: Tier) -> CaseOut {
        let mut out = CaseOut::new();
        let mut rng = Rng::for_case(seed, "C18", label);
        let parts: Vec<&str> = label.split(':').collect();
        let cfg = GenCfg {
            n_min: 4,
            n_max: if rng.chance(1, 8) { tier.pick(50, 100) } else { 20 },
            defaults: true,
            flags: true,
            max_recs: 5,
            ..GenCfg::default()
        };
        let mut old = crate::gen::gen_facts(&mut rng, &cfg);
        // names at the 255-byte limit of the binary format (the round-trip comparison must stay empty)
        if rng.chance(1, 3) {
            let i = rng.usize_below(old.terms.len());
            if old.terms[i].id != 1 && old.terms[i].id != 118 {
                let tail = *rng.pick(&["", "é", "€", "😀"]);
                let total = rng.urange(253, 255);
                old.terms[i].name = format!("{}{tail}", "n".repeat(total - tail.len()));
                out.bucket("name_at_255_byte_limit");
            }
            if let Some(g) = old.recs[0].first_mut() {
                let tail = *rng.pick(&["", "é", "€", "😀"]);
                g.name = format!("{}{tail}", "G".repeat(255 - tail.len()));
            }
        }
        let mut new = old.clone();
        let mut applied: Vec<String> = Vec::new();
        if parts[0] == "edit" {
            let e = EDITS[parts[1].parse::<usize>().unwrap()];
            for _ in 0..30 {
                if apply_edit(&mut new, e, &mut rng) {
                    applied.push(e.to_string());
                    break;
                }
            }
            if !applied.is_empty() {
                out.bucket(&format!("single_edit/{e}"));
            }
        } else {
            for _ in 0..rng.urange(1, 6) {
                let e = *rng.pick(&EDITS);
                if apply_edit(&mut new, e, &mut rng) {
                    applied.push(e.to_string());
                }
            }
        }
        sanitize_replacements(&mut old, &mut new);
        // release versions: equal, new younger than old, or new OLDER than old (comparing a release with
        // its predecessor); the report is relative to the receiver whatever the dates say
        match rng.below(3) {
            0 => {}
            1 => {
                new.version = (old.version.0.saturating_add(1), old.version.1, old.version.2);
                out.bucket("versions/new_is_younger");
            }
            _ => {
                old.version = (old.version.0.max(1), old.version.1, old.version.2);
                new.version = (old.version.0 - 1, old.version.1, old.version.2);
                out.bucket("versions/new_is_older");
            }
        }
        out.sig = hash_u64s(&[old.content_hash(), new.content_hash()]);
        out.nontrivial = old.content_hash() != new.content_hash();
        out.case = Json::obj().set("edits", Json::arr_str(&applied)).set("old", old.to_json()).set("new", new.to_json());
        let (oa, ob) = match (drive::via_bytes(&old, 3).1, drive::via_bytes(&new, 3).1) {
            (Ok(a), Ok(b)) => (a, b),
            (a, b) => {
                out.bucket("source_construction_failed");
                out.case.put("source_error", Json::s(format!("{:?} / {:?}", a.err().map(|e| e.to_string()), b.err().map(|e| e.to_string()))));
                return out;
            }
        };
        let exp = model_diff(&old, &new);
        bump(&mut out.events, "Ontology::compare");
        match guard(|| observed_diff(&oa, &ob)) {
            Ok((got, notes)) => {
                for n in notes {
                    out.violate("C18", "duplicate_entry", n);
                }
                self.compare_sets("old_vs_new", &exp, &got, &mut out);
            }
            Err(p) => out.violate("C18", "panic:compare", format!("{} at {}", p.message, p.location)),
        }
        bump(&mut out.events, "Ontology::compare");
        match guard(|| observed_diff(&ob, &oa)) {
            Ok((got, _)) => {
                self.compare_sets("mirror", &mirror(&exp), &got, &mut out);
                out.bucket("mirror_comparisons");
            }
            Err(p) => out.violate("C18", "panic:compare_mirror", format!("{} at {}", p.message, p.location)),
        }
        // self comparison and round-trip comparison report nothing
        for (name, o) in [("old", &oa), ("new", &ob)] {
            bump(&mut out.events, "Ontology::compare");
            if let Ok((got, _)) = guard(|| observed_diff(o, o)) {
                out.check(got == Diff::default(), "C18", "self_comparison_not_empty", || format!("{name}.compare({name}) reports {got:?}"));
                out.bucket("self_comparisons");
            }
            if let Ok(bytes) = drive::as_bytes(o) {
                if let Ok(rt) = drive::from_bytes(&bytes) {
                    if let Ok((got, _)) = guard(|| observed_diff(o, &rt)) {
                        out.check(got == Diff::default(), "C18", "roundtrip_comparison_not_empty", || format!("{name}.compare(round trip) reports {got:?}"));
                    }
                }
            }
        }
        out
    }
}
