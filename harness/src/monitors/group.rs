//! C12 part A: HpoGroup operation histories against a BTreeSet model, plus the exhaustive
//! sub-space (all ordered pairs of subsets of a 6-id universe).

use crate::json::Json;
use crate::observe::{bump, bump_n};
use crate::rng::Rng;
use crate::runner::{CaseOut, Tier};
use hpo::annotations::AnnotationId;
use hpo::term::HpoGroup;
use hpo::HpoTermId;
use std::collections::{BTreeMap, BTreeSet, HashSet};

pub fn plan(tier: Tier) -> Vec<String> {
    let mut v = Vec::new();
    for i in 0..64 {
        v.push(format!("grpexh:{i}"));
    }
    for i in 0..12 {
        v.push(format!("grpcat:{i}"));
    }
    for i in 0..tier.pick(3000, 60_000) {
        v.push(format!("grphist:{i}"));
    }
    v
}

pub fn mandatory(_tier: Tier) -> Vec<&'static str> {
    vec![
        "groupops/exhaustive_pairs",
        "groupops/size_crosses_inline_limit",
        "groupops/equal_length_operands",
        "groupops/nested_operands",
        "groupops/disjoint_operands",
        "groupops/equal_operands",
        "groupops/empty_operand",
        "groupops/insert_existing",
        "groupops/constructor_input_with_repeats",
    ]
}

pub fn extra_coverage(_tier: Tier, buckets: &BTreeMap<String, u64>) -> Vec<(String, Json)> {
    let n = buckets.get("groupops/exhaustive_pairs").copied().unwrap_or(0);
    vec![
        (
            "exhaustive_subspace".to_string(),
            Json::s(format!(
                "all 4096 ordered pairs of subsets of a 6-id universe for | and & in every ownership variant, all 64x7 for + and | id: {n} pairs enumerated (exhaustive for that sub-space only)"
            )),
        ),
        ("exhaustive".to_string(), Json::Bool(false)),
    ]
}

fn tid(x: u32) -> HpoTermId {
    HpoTermId::from_u32(x)
}

fn ids(g: &HpoGroup) -> Vec<u32> {
    g.iter().map(|t| t.as_u32()).collect()
}

fn from_set(s: &BTreeSet<u32>, how: u64) -> HpoGroup {
    // the constructor input is unsorted and (for half of the calls) contains repeated ids:
    // the result must still be the set
    let mut input: Vec<u32> = s.iter().rev().copied().collect();
    if (how / 5) % 2 == 1 {
        let dups: Vec<u32> = s.iter().copied().enumerate().filter(|(i, _)| (*i as u64 + how) % 3 == 0).map(|(_, x)| x).collect();
        let mid = input.len() / 2;
        for (j, d) in dups.iter().enumerate() {
            match j % 3 {
                0 => input.push(*d),
                1 => input.insert(0, *d),
                _ => input.insert(mid.min(input.len()), *d),
            }
        }
    }
    match how % 5 {
        0 => {
            let mut g = HpoGroup::new();
            for x in &input {
                g.insert(*x);
            }
            g
        }
        1 => HpoGroup::from(input.iter().map(|x| tid(*x)).collect::<Vec<HpoTermId>>()),
        2 => HpoGroup::from(input.clone()),
        3 => HpoGroup::from(input.iter().map(|x| tid(*x)).collect::<HashSet<HpoTermId>>()),
        _ => input.iter().map(|x| tid(*x)).collect::<HpoGroup>(),
    }
}

/// every observable of a group against the model set
fn check_group(g: &HpoGroup, m: &BTreeSet<u32>, what: &str, out: &mut CaseOut) {
    let v = ids(g);
    let exp: Vec<u32> = m.iter().copied().collect();
    bump(&mut out.events, "HpoGroup::iter");
    out.check(v == exp, "C12", &format!("group_content/{what}"), || {
        format!("{what}: group iterates {v:?}, model set {exp:?}")
    });
    bump(&mut out.events, "HpoGroup::len");
    out.check(g.len() == m.len() && g.is_empty() == m.is_empty(), "C12", &format!("group_len/{what}"), || {
        format!("{what}: len {} is_empty {} vs model {}", g.len(), g.is_empty(), m.len())
    });
    // via IntoIterator for &HpoGroup
    let v2: Vec<u32> = g.into_iter().map(|t| t.as_u32()).collect();
    out.check(v2 == exp, "C12", &format!("group_into_iter/{what}"), || format!("{what}: into_iter {v2:?} vs {exp:?}"));
    for (i, e) in exp.iter().enumerate() {
        bump(&mut out.events, "HpoGroup::get");
        out.check(g.get(i).map(|t| t.as_u32()) == Some(*e), "C12", &format!("group_get/{what}"), || {
            format!("{what}: get({i}) = {:?}, model {e}", g.get(i))
        });
        bump(&mut out.events, "HpoGroup::contains");
        out.check(g.contains(&tid(*e)), "C12", &format!("group_contains/{what}"), || {
            format!("{what}: contains({e}) = false for a member")
        });
    }
    out.check(g.get(exp.len()).is_none(), "C12", &format!("group_get_oob/{what}"), || format!("{what}: get(len) is Some"));
    // the iterator through the other consumers of the Iterator protocol
    {
        let n = exp.len();
        bump(&mut out.events, "HpoGroup::iter (count/size_hint/nth/skip/step_by/last)");
        let mut bad: Vec<String> = Vec::new();
        if g.iter().take(n + 10).count() != n {
            bad.push(format!("iter().count() = {}", g.iter().take(n + 10).count()));
        }
        let (lo, hi) = g.iter().size_hint();
        if lo > n || hi.is_some_and(|h| h < n) {
            bad.push(format!("size_hint() = ({lo}, {hi:?}) for {n} ids"));
        }
        if g.iter().last().map(|t| t.as_u32()) != exp.last().copied() {
            bad.push("last()".to_string());
        }
        for k in [0usize, 1, n / 2, n.saturating_sub(1), n, n + 2] {
            let e = exp.get(k).copied();
            if g.iter().nth(k).map(|t| t.as_u32()) != e {
                bad.push(format!("nth({k}) = {:?}, expected {e:?}", g.iter().nth(k).map(|t| t.as_u32())));
            }
            if g.iter().skip(k).next().map(|t| t.as_u32()) != e {
                bad.push(format!("skip({k}).next()"));
            }
            let rest: Vec<u32> = g.iter().skip(k).take(n + 10).map(|t| t.as_u32()).collect();
            if rest != exp[k.min(n)..] {
                bad.push(format!("skip({k}) yields {} ids, expected {}", rest.len(), n.saturating_sub(k)));
            }
            let mut it = g.iter();
            for _ in 0..k {
                it.next();
            }
            let (lo, hi) = it.size_hint();
            let left = n.saturating_sub(k);
            if it.take(n + 10).count() != left || lo > left || hi.is_some_and(|h| h < left) {
                bad.push(format!("after {k} next() calls: count / size_hint disagree with {left} remaining ids"));
            }
        }
        for step in [1usize, 2, 3, 7] {
            let got: Vec<u32> = g.iter().step_by(step).take(n + 10).map(|t| t.as_u32()).collect();
            let want: Vec<u32> = exp.iter().copied().step_by(step).collect();
            if got != want {
                bad.push(format!("step_by({step}) yields {got:?}, expected {want:?}"));
            }
        }
        for b in bad {
            out.violate("C12", &format!("group_iterator_protocol/{what}"), format!("{what}: {b} (group {exp:?})"));
        }
        out.comparisons += 30;
    }
    // non-members around members
    for e in exp.iter().take(20) {
        for n in [e.wrapping_sub(1), e.wrapping_add(1)] {
            if !m.contains(&n) {
                out.check(!g.contains(&tid(n)), "C12", &format!("group_contains_absent/{what}"), || {
                    format!("{what}: contains({n}) = true for a non-member")
                });
            }
        }
    }
    // as_bytes: 4 bytes big endian per id in order
    let b = g.as_bytes();
    let mut eb = Vec::new();
    for e in &exp {
        eb.extend_from_slice(&e.to_be_bytes());
    }
    out.check(b == eb, "C12", &format!("group_as_bytes/{what}"), || format!("{what}: as_bytes mismatch"));
}

fn classify(a: &BTreeSet<u32>, b: &BTreeSet<u32>, out: &mut CaseOut) {
    if a.is_empty() || b.is_empty() {
        out.bucket("groupops/empty_operand");
    }
    if a == b && !a.is_empty() {
        out.bucket("groupops/equal_operands");
    }
    if a.len() == b.len() && a != b {
        out.bucket("groupops/equal_length_operands");
    }
    if a != b && (a.is_subset(b) || b.is_subset(a)) && !a.is_empty() && !b.is_empty() {
        out.bucket("groupops/nested_operands");
    }
    if a.is_disjoint(b) && !a.is_empty() && !b.is_empty() {
        out.bucket("groupops/disjoint_operands");
    }
    if (a.len() <= 30) != (a.union(b).count() <= 30) || a.len() > 30 || b.len() > 30 {
        out.bucket("groupops/size_crosses_inline_limit");
    }
}

fn binary_ops(a: &BTreeSet<u32>, b: &BTreeSet<u32>, how: u64, out: &mut CaseOut) {
    let ga = from_set(a, how);
    let gb = from_set(b, how / 5);
    let uni: BTreeSet<u32> = a.union(b).copied().collect();
    let int: BTreeSet<u32> = a.intersection(b).copied().collect();
    bump_n(&mut out.events, "HpoGroup::bitor", 3);
    bump_n(&mut out.events, "HpoGroup::bitand", 3);
    check_group(&(&ga | &gb), &uni, "ref|ref", out);
    check_group(&(ga.clone() | gb.clone()), &uni, "own|own", out);
    check_group(&(ga.clone() | &gb), &uni, "own|ref", out);
    check_group(&(&ga & &gb), &int, "ref&ref", out);
    check_group(&(ga.clone() & gb.clone()), &int, "own&own", out);
    check_group(&(ga.clone() & &gb), &int, "own&ref", out);
    // copies: clone and clone_from (into a target that held other, possibly more, members)
    bump_n(&mut out.events, "HpoGroup::clone", 1);
    bump_n(&mut out.events, "HpoGroup::clone_from", 2);
    check_group(&ga.clone(), a, "clone", out);
    let mut d = ga.clone();
    d.clone_from(&gb);
    check_group(&d, b, "clone_from", out);
    let mut d2 = gb.clone();
    d2.clone_from(&ga);
    check_group(&d2, a, "clone_from", out);
    // the copy is a group in its own right
    if let Some(x) = a.iter().next() {
        let mut e = b.clone();
        let newly = e.insert(*x);
        let got = d.insert(tid(*x));
        out.check(got == newly, "C12", "insert_return", || format!("insert({x}) into a clone_from copy returned {got}, model {newly}"));
        check_group(&d, &e, "insert_after_clone_from", out);
    }
    // operands untouched
    check_group(&ga, a, "lhs_after_ops", out);
    check_group(&gb, b, "rhs_after_ops", out);
}

fn single_ops(a: &BTreeSet<u32>, x: u32, how: u64, out: &mut CaseOut) {
    let ga = from_set(a, how);
    let mut e = a.clone();
    e.insert(x);
    bump_n(&mut out.events, "HpoGroup::add_id", 3);
    check_group(&(&ga + tid(x)), &e, "ref+id", out);
    check_group(&(ga.clone() + tid(x)), &e, "own+id", out);
    check_group(&(&ga | tid(x)), &e, "ref|id", out);
    check_group(&ga, a, "lhs_after_add", out);
}

pub fn run_case(label: &str, rng: &mut Rng, _tier: Tier, out: &mut CaseOut) {
    let parts: Vec<&str> = label.split(':').collect();
    let idx: u64 = parts[1].parse().unwrap();
    if parts[0] == "grpexh" {
        // left subset = idx (0..64) of the universe; all 64 right subsets; all 7 single ids
        let uni: [u32; 6] = [0, 1, 2, 118, 9_999_999, u32::MAX];
        let sub = |mask: u64| -> BTreeSet<u32> { (0..6).filter(|i| mask >> i & 1 == 1).map(|i| uni[i as usize]).collect() };
        let a = sub(idx);
        for mb in 0..64u64 {
            let b = sub(mb);
            classify(&a, &b, out);
            binary_ops(&a, &b, idx * 64 + mb, out);
            out.bucket("groupops/exhaustive_pairs");
        }
        for x in uni.iter().chain([7u32, u32::MAX - 1].iter()) {
            single_ops(&a, *x, idx, out);
            out.bucket("groupops/exhaustive_single");
        }
        out.sig = crate::rng::hash_u64s(&[0xE8, idx]);
        out.nontrivial = true;
        out.case = Json::obj()
            .set("kind", Json::s("exhaustive pairs of subsets"))
            .set("left_subset", Json::arr_u32(&a.iter().copied().collect::<Vec<_>>()))
            .set("universe", Json::arr_u32(&uni));
        return;
    }

    // operand sizes: catalogue pins the inline-storage limit, random covers 0..80
    let (na, nb) = if parts[0] == "grpcat" {
        [(29, 1), (30, 1), (31, 31), (30, 30), (29, 31), (0, 31), (31, 0), (60, 20), (1, 80), (15, 15), (30, 0), (45, 45)][idx as usize % 12]
    } else {
        (rng.urange(0, 80), rng.urange(0, 80))
    };
    let span = if rng.chance(1, 2) { (na + nb) as u64 + 4 } else { 10_000_000 };
    let mut a = BTreeSet::new();
    // border ids are members now and then (0, the largest term id, the largest u32)
    if na > 0 && rng.chance(1, 4) {
        a.insert(*rng.pick(&[0u32, 9_999_999, u32::MAX, u32::MAX - 1]));
    }
    while a.len() < na {
        a.insert(rng.below(span.max(na as u64 + 1)) as u32);
    }
    let mut b: BTreeSet<u32> = match rng.below(5) {
        0 => a.iter().copied().take(nb).collect(),           // nested / equal
        1 => a.iter().map(|x| x.wrapping_add(span as u32 + 1)).take(nb).collect(), // disjoint
        _ => BTreeSet::new(),
    };
    if nb > 0 && b.len() < nb && rng.chance(1, 4) {
        b.insert(*rng.pick(&[0u32, 9_999_999, u32::MAX, u32::MAX - 1]));
    }
    while b.len() < nb {
        b.insert(rng.below(span.max(nb as u64 + 1)) as u32);
    }
    if parts[0] == "grpcat" && idx % 12 == 9 {
        b = a.clone();
    }
    classify(&a, &b, out);

    // insertion history with return values, duplicates and interleaved queries
    let mut order: Vec<u32> = a.iter().copied().collect();
    rng.shuffle(&mut order);
    let dup: Vec<u32> = order.iter().copied().filter(|_| rng.chance(1, 3)).collect();
    let mut hist: Vec<u32> = order.clone();
    for d in dup {
        let pos = rng.usize_below(hist.len() + 1);
        hist.insert(pos, d);
    }
    let mut g = if rng.chance(1, 2) { HpoGroup::new() } else { HpoGroup::with_capacity(rng.urange(0, 40)) };
    let mut m: BTreeSet<u32> = BTreeSet::new();
    let mut crossed = false;
    for (step, x) in hist.iter().enumerate() {
        let exp_new = m.insert(*x);
        bump(&mut out.events, "HpoGroup::insert");
        let got = g.insert(tid(*x));
        out.check(got == exp_new, "C12", "insert_return", || {
            format!("step {step}: insert({x}) returned {got}, model says newly inserted = {exp_new}")
        });
        if !exp_new {
            out.bucket("groupops/insert_existing");
        }
        if m.len() == 31 && !crossed {
            crossed = true;
            out.bucket("groupops/size_crosses_inline_limit");
            check_group(&g, &m, "history_at_31", out);
        }
        if step % 16 == 0 {
            check_group(&g, &m, "history_mid", out);
        }
    }
    check_group(&g, &m, "history_end", out);
    for how in 0..10u64 {
        bump(&mut out.events, "HpoGroup::constructor");
        let h = how + 10 * rng.below(1000);
        check_group(&from_set(&a, h), &a, &format!("constructor_{}{}", h % 5, if (h / 5) % 2 == 1 { "_with_repeats" } else { "" }), out);
    }
    out.bucket("groupops/constructor_input_with_repeats");
    binary_ops(&a, &b, rng.next_u64(), out);
    single_ops(&a, rng.below(span) as u32, rng.next_u64(), out);
    if let Some(x) = a.iter().next() {
        single_ops(&a, *x, rng.next_u64(), out); // adding an existing id
    }
    // clear
    g.clear();
    check_group(&g, &BTreeSet::new(), "after_clear", out);

    out.sig = crate::rng::hash_u64s(&[
        crate::rng::hash_u64s(&a.iter().map(|x| u64::from(*x)).collect::<Vec<_>>()),
        crate::rng::hash_u64s(&b.iter().map(|x| u64::from(*x)).collect::<Vec<_>>()),
        crate::rng::hash_u64s(&hist.iter().map(|x| u64::from(*x)).collect::<Vec<_>>()),
    ]);
    out.nontrivial = a.len() + b.len() >= 3;
    out.case = Json::obj()
        .set("kind", Json::s("group operation history"))
        .set("insert_history", Json::arr_u32(&hist))
        .set("a", Json::arr_u32(&a.iter().copied().collect::<Vec<_>>()))
        .set("b", Json::arr_u32(&b.iter().copied().collect::<Vec<_>>()));
}
