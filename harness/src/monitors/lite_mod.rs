//! module list for the Ontology-free `hpo-verif-lite` binary
#[path = "c20.rs"]
pub mod c20;
#[path = "group.rs"]
pub mod group;
