//! C17: hierarchical clustering returns a valid dendrogram built from closest pairs.
//! The distance callback logs every invocation; the result is replayed on a naive model.

use crate::json::Json;
use crate::observe::{bump, guard};
use crate::rng::{hash_u64s, Rng};
use crate::runner::{CaseOut, Monitor, Tier};
use hpo::annotations::AnnotationId;
use hpo::builder::Builder;
use hpo::stats::Linkage;
use hpo::term::HpoGroup;
use hpo::utils::Combinations;
use hpo::{HpoSet, Ontology};
use std::cell::RefCell;
use std::collections::{BTreeMap, BTreeSet};

pub struct C17;

const METHODS: [&str; 4] = ["single", "complete", "average", "union"];

/// terms 1..=n+1; flat (all below 1) or a binary tree (parent of i is i/2), so that input sets can hold a
/// term together with one of its ancestors
fn small_ontology(n: u32, tree: bool) -> Ontology {
    let mut b = Builder::new();
    b.new_term("root", 1u32);
    for id in 2..=n + 1 {
        b.new_term(&format!("t{id}"), id);
    }
    let mut b = b.terms_complete();
    for id in 2..=n + 1 {
        b.add_parent(if tree { id / 2 } else { 1u32 }, id).unwrap();
    }
    b.connect_all_terms().calculate_information_content().unwrap().build_minimal()
}

/// seeded symmetric distance of two id sets. seed % 7 selects the range:
/// (0.05, 1.05) | (-0.5, 0.5) (a user distance like 1 - similarity may be negative) | (0, 1000) | (-3, -2) | (1e-9, 2e-9) | (-0.5, 0.5) with a quarter of the pairs at exactly 0
fn dist(seed: u64, a: &[u32], b: &[u32]) -> f32 {
    let ha = hash_u64s(&a.iter().map(|x| u64::from(*x)).collect::<Vec<_>>());
    let hb = hash_u64s(&b.iter().map(|x| u64::from(*x)).collect::<Vec<_>>());
    let (x, y) = if ha <= hb { (ha, hb) } else { (hb, ha) };
    let h = hash_u64s(&[seed, x, y]);
    let u = ((h >> 40) as f32) / ((1u64 << 24) as f32);
    match seed % 7 {
        // subnormal distances (a product of many small probabilities): every value is a small
        // multiple of 2^-149, so halving loses bits unless it is done after the addition
        6 => f32::from_bits(((h >> 40) & 0xF_FFFF) as u32 + 1),
        0 => 0.05 + u,
        1 => u - 0.5,
        2 => u * 1000.0,
        3 => u - 3.0,
        4 => (1.0 + u) * 1e-9, // tiny scale: neighbouring values differ by far less than f32::EPSILON
        // mixed sign with exact zeros in between (1 - similarity of identical-looking sets)
        _ => {
            if h & 3 == 0 {
                0.0
            } else {
                u - 0.5
            }
        }
    }
}

/// `dist` with one designated unordered pair of input sets at +infinity (a distance like 1/similarity of
/// unrelated sets)
fn dist_inf(seed: u64, inf_pair: Option<&(Vec<u32>, Vec<u32>)>, a: &[u32], b: &[u32]) -> f32 {
    if let Some((x, y)) = inf_pair {
        if (a == x.as_slice() && b == y.as_slice()) || (a == y.as_slice() && b == x.as_slice()) {
            return f32::INFINITY;
        }
    }
    dist(seed, a, b)
}

fn set_ids(s: &HpoSet) -> Vec<u32> {
    s.iter().map(|t| t.id().as_u32()).collect()
}

#[derive(Clone, Debug, PartialEq)]
struct Merge {
    lhs: usize,
    rhs: usize,
    distance: f32,
    len: usize,
}

impl Monitor for C17 {
    fn id(&self) -> &'static str {
        "C17"
    }
    fn rule(&self) -> String {
        "A case = n distinct term sets (n = 2..12 quick, ..40 thorough) on a flat ontology, a seeded symmetric tie-free distance (hash of the two id sets, so the model can recompute distances of united sets) and one of the four linkage methods. \
         The distance callback logs every invocation with the id sets of each pair; the dendrogram is read through cluster(), iter(), into_cluster() and indicies() and checked structurally (n-1 merges, every index < 2n-2 merged exactly once, k-th merge only refers to indices < n+k, sizes add up, leaf order is a permutation, first callback invocation = every unordered input pair exactly once) and replayed against a naive agglomerative model (closest live pair, reported distance, update rule min / max / mean of the two parts / user distance of the united sets). Cases whose model minimum is not unique within 1e-6 stop exact comparison (tie_skipped) but keep structural checks. \
         Distinct = (sets, seed, method) hash; non-trivial = n >= 3."
            .into()
    }
    fn assumptions(&self) -> Vec<String> {
        vec![
            "input sets are pairwise distinct so that the callback log identifies pairs".into(),
            "ties are excluded from exact comparison (broken arbitrarily by hash-map iteration order)".into(),
        ]
    }
    fn plan(&self, tier: Tier) -> Vec<String> {
        let mut v = Vec::new();
        for n in 2..=tier.pick(12, 24) {
            for m in 0..4 {
                v.push(format!("cat:{n}:{m}"));
            }
        }
        for i in 0..tier.pick(4000, 60_000) {
            v.push(format!("rnd:{i}"));
        }
        v
    }
    fn mandatory_buckets(&self, _tier: Tier) -> Vec<String> {
        let mut v: Vec<String> = METHODS.iter().map(|m| format!("method/{m}")).collect();
        for b in ["merge/two_inputs", "merge/input_and_cluster", "merge/two_clusters", "exact_replay_completed", "n/2", "distance_range/mixed_sign", "distance_range/negative", "distance_range/large", "distance_range/tiny", "distance_range/mixed_sign_with_exact_zeros", "distance_range/subnormal", "owned_iterator_read_from_both_ends", "distance/one_infinite_pair", "input/iterator_with_inexact_size_hint", "input/empty_set", "input/identical_sets", "input/set_with_ancestor_and_descendant"] {
            v.push(b.to_string());
        }
        v
    }

    #[allow(clippy::too_many_lines)]
    fn run_case(&self, label: &str, seed: u64, tier: Tier) -> CaseOut {
        let mut out = CaseOut::new();
        let mut rng = Rng::for_case(seed, "C17", label);
        let parts: Vec<&str> = label.split(':').collect();
        let (n, method) = if parts[0] == "cat" {
            (parts[1].parse::<usize>().unwrap(), parts[2].parse::<usize>().unwrap())
        } else {
            (rng.urange(2, tier.pick(12, 40)), rng.usize_below(4))
        };
        let n_terms = 40u32;
        let tree = rng.chance(1, 2);
        let ont = small_ontology(n_terms, tree);
        let dseed = rng.next_u64();
        out.bucket(["distance_range/positive", "distance_range/mixed_sign", "distance_range/large", "distance_range/negative", "distance_range/tiny", "distance_range/mixed_sign_with_exact_zeros", "distance_range/subnormal"][(dseed % 7) as usize]);
        // distinct sets; one of them may be empty
        let mut sets: Vec<Vec<u32>> = Vec::new();
        let mut seen: BTreeSet<Vec<u32>> = BTreeSet::new();
        if n >= 3 && rng.chance(1, 4) {
            sets.push(vec![]);
            seen.insert(vec![]);
            out.bucket("input/empty_set");
        }
        let allow_identical = n >= 3 && rng.chance(1, 8);
        if allow_identical {
            out.bucket("input/identical_sets");
        }
        while sets.len() < n {
            if allow_identical && sets.len() == 1 {
                let c = sets[0].clone();
                sets.push(c); // an identical twin (ties are then expected; structural checks still apply)
                continue;
            }
            let k = rng.urange(1, 5);
            let mut s: Vec<u32> = rng.sample_indices(n_terms as usize, k).iter().map(|i| *i as u32 + 2).collect();
            s.sort_unstable();
            if seen.insert(s.clone()) {
                sets.push(s);
            }
        }
        rng.shuffle(&mut sets);
        if tree && sets.iter().any(|s| s.iter().any(|a| s.iter().any(|b| a != b && { let mut x = *b; let mut anc = false; while x > 1 { x /= 2; if x == *a { anc = true; } } anc }))) {
            out.bucket("input/set_with_ancestor_and_descendant");
        }
        let inf_pair: Option<(Vec<u32>, Vec<u32>)> = if !allow_identical && rng.chance(1, 6) {
            let i = rng.usize_below(n);
            let mut j = rng.usize_below(n);
            if j == i {
                j = (i + 1) % n;
            }
            out.bucket("distance/one_infinite_pair");
            Some((sets[i].clone(), sets[j].clone()))
        } else {
            None
        };
        out.sig = hash_u64s(&[dseed, n as u64, method as u64, hash_u64s(&sets.iter().flatten().map(|x| u64::from(*x)).collect::<Vec<_>>())]);
        out.nontrivial = n >= 3;
        out.bucket(&format!("method/{}", METHODS[method]));
        out.bucket(&format!("n/{n}"));
        out.case = Json::obj()
            .set("method", Json::s(METHODS[method]))
            .set("n", Json::us(n))
            .set("distance_seed", Json::u(dseed))
            .set("sets", Json::Arr(sets.iter().map(|s| Json::arr_u32(s)).collect()));

        // callback with event log
        let log: RefCell<Vec<Vec<(Vec<u32>, Vec<u32>)>>> = RefCell::new(Vec::new());
        let cb = |combs: Combinations<HpoSet<'_>>| -> Vec<f32> {
            let mut pairs = Vec::new();
            let res: Vec<f32> = combs
                .map(|(a, b)| {
                    let (ia, ib) = (set_ids(a), set_ids(b));
                    let d = dist_inf(dseed, inf_pair.as_ref(), &ia, &ib);
                    pairs.push((ia, ib));
                    d
                })
                .collect();
            log.borrow_mut().push(pairs);
            res
        };
        // which end the owned iterator is read from at each step (bit pattern; 0 = always from the front)
        let back_pattern: u64 = match rng.below(4) {
            0 => 0,
            1 => u64::MAX,
            _ => rng.next_u64(),
        };
        if back_pattern != 0 {
            out.bucket("owned_iterator_read_from_both_ends");
        }
        let inexact_hint = rng.chance(1, 2);
        if inexact_hint {
            out.bucket("input/iterator_with_inexact_size_hint");
        }
        bump(&mut out.events, "Linkage::new");
        let res = guard(|| {
            // the sets arrive through an iterator whose size_hint differs from the real count in half of the
            // cases (filter: lower bound 0; chained decoys that are filtered out again: upper bound too large)
            let real: Vec<HpoSet> = sets.iter().map(|s| HpoSet::new(&ont, HpoGroup::from(s.clone()))).collect();
            let decoys: Vec<HpoSet> = (0..3).map(|_| HpoSet::new(&ont, HpoGroup::from(vec![1u32]))).collect();
            let n_real = real.len();
            let hsets: Box<dyn Iterator<Item = HpoSet>> = if inexact_hint {
                Box::new(real.into_iter().chain(decoys).enumerate().filter(move |(i, _)| *i < n_real).map(|(_, s)| s))
            } else {
                Box::new(real.into_iter())
            };
            let linkage = match method {
                0 => Linkage::single(hsets, &cb),
                1 => Linkage::complete(hsets, &cb),
                2 => Linkage::average(hsets, &cb),
                _ => Linkage::union(hsets, &cb),
            };
            let via_cluster: Vec<Merge> = linkage.cluster().map(|c| Merge { lhs: c.lhs(), rhs: c.rhs(), distance: c.distance(), len: c.len() }).collect();
            let via_iter: Vec<Merge> = linkage.iter().map(|c| Merge { lhs: c.lhs(), rhs: c.rhs(), distance: c.distance(), len: c.len() }).collect();
            let via_ref: Vec<Merge> = (&linkage).into_iter().map(|c| Merge { lhs: c.lhs(), rhs: c.rhs(), distance: c.distance(), len: c.len() }).collect();
            let indicies = linkage.indicies();
            let conv = |c: &hpo::stats::cluster::Cluster| Merge { lhs: c.lhs(), rhs: c.rhs(), distance: c.distance(), len: c.len() };
            // borrowed iterators read backwards
            let mut cluster_rev: Vec<Merge> = linkage.cluster().rev().map(conv).collect();
            cluster_rev.reverse();
            let mut ref_rev: Vec<Merge> = (&linkage).into_iter().rev().map(conv).collect();
            ref_rev.reverse();
            // the borrowed iterator through adaptors that use nth / size_hint
            let bound = 4 * n + 8; // an adaptor that never ends must not eat the memory
            let skipped: Vec<Merge> = linkage.cluster().skip(1).take(bound).map(conv).collect();
            let stepped: Vec<Merge> = linkage.cluster().step_by(2).take(bound).map(conv).collect();
            let mut it_nth = linkage.cluster();
            let nth_twice: Vec<Option<Merge>> = vec![it_nth.nth(0).map(conv), it_nth.nth(0).map(conv), it_nth.next().map(conv)];
            let counted = (linkage.cluster().take(bound).count(), linkage.cluster().size_hint(), linkage.iter().skip(1).take(bound).count());
            // the owned iterator read from both ends in a seeded pattern: the items taken from the front
            // followed by the reversed items taken from the back are the merges in order
            let mut it = linkage.into_cluster();
            let mut front: Vec<Merge> = Vec::new();
            let mut back: Vec<Merge> = Vec::new();
            let mut pat = back_pattern;
            loop {
                let from_back = pat & 1 == 1;
                pat = pat.rotate_right(1);
                let item = if from_back { it.next_back() } else { it.next() };
                match item {
                    Some(c) => {
                        if from_back {
                            back.push(conv(&c));
                        } else {
                            front.push(conv(&c));
                        }
                    }
                    None => break,
                }
                if front.len() + back.len() > 10_000 {
                    break;
                }
            }
            back.reverse();
            front.extend(back);
            (via_cluster, via_iter, via_ref, indicies, front, cluster_rev, ref_rev, skipped, stepped, nth_twice, counted)
        });
        let (merges, via_iter, via_ref, indicies, via_into, cluster_rev, ref_rev, skipped, stepped, nth_twice, counted) = match res {
            Ok(x) => x,
            Err(p) => {
                out.violate("C17", &format!("panic/{}", METHODS[method]), format!("n={n}: {} at {}", p.message, p.location));
                return out;
            }
        };
        let m = METHODS[method];
        out.check(via_iter == merges && via_ref == merges, "C17", "accessor_twins", || "cluster(), iter() and &Linkage disagree".to_string());
        out.check(via_into == merges, "C17", "accessor_twins/into_cluster", || {
            format!("into_cluster() read with end pattern {back_pattern:#x} gives {via_into:?}, cluster() gives {merges:?}")
        });
        out.check(cluster_rev == merges && ref_rev == merges, "C17", "accessor_twins/reversed", || "cluster().rev() or (&Linkage).into_iter().rev() is not the reverse of cluster()".to_string());
        {
            let exp_skip: Vec<Merge> = merges.iter().skip(1).cloned().collect();
            let exp_step: Vec<Merge> = merges.iter().step_by(2).cloned().collect();
            let exp_nth: Vec<Option<Merge>> = vec![merges.first().cloned(), merges.get(1).cloned(), merges.get(2).cloned()];
            let nm = merges.len();
            let ok_count = counted.0 == nm && counted.1 .0 <= nm && counted.1 .1.map_or(true, |h| h >= nm) && counted.2 == nm.saturating_sub(1);
            out.check(skipped == exp_skip && stepped == exp_step && nth_twice == exp_nth && ok_count, "C17", "accessor_twins/iterator_adaptors", || {
                format!("cluster() through skip(1) / step_by(2) / nth(0) twice / count / size_hint disagrees with plain iteration: skip {} of {}, step {} of {}, nth {:?}, counts {:?}", skipped.len(), exp_skip.len(), stepped.len(), exp_step.len(), nth_twice.iter().map(Option::is_some).collect::<Vec<_>>(), counted)
            });
        }
        bump(&mut out.events, "Linkage::cluster");
        bump(&mut out.events, "Linkage::indicies");

        // ---- structural checks
        out.check(merges.len() == n - 1, "C17", &format!("merge_count/{m}"), || format!("n={n}: {} merges", merges.len()));
        let mut used: BTreeMap<usize, usize> = BTreeMap::new();
        let mut size: BTreeMap<usize, usize> = (0..n).map(|i| (i, 1)).collect();
        for (k, mg) in merges.iter().enumerate() {
            for idx in [mg.lhs, mg.rhs] {
                *used.entry(idx).or_insert(0) += 1;
                out.check(idx < n + k, "C17", &format!("merge_refers_to_future_index/{m}"), || format!("merge {k} joins index {idx} >= n+k = {}", n + k));
            }
            out.check(mg.lhs != mg.rhs, "C17", &format!("merge_with_itself/{m}"), || format!("merge {k} joins {} with itself", mg.lhs));
            let expect_len = size.get(&mg.lhs).copied().unwrap_or(0) + size.get(&mg.rhs).copied().unwrap_or(0);
            out.check(mg.len == expect_len, "C17", &format!("cluster_size/{m}"), || format!("merge {k} ({},{}) reports len {} but its parts have {expect_len} inputs", mg.lhs, mg.rhs, mg.len));
            size.insert(n + k, expect_len);
            let class = match (mg.lhs < n, mg.rhs < n) {
                (true, true) => "merge/two_inputs",
                (false, false) => "merge/two_clusters",
                _ => "merge/input_and_cluster",
            };
            out.bucket(class);
        }
        if merges.len() == n - 1 {
            for idx in 0..(2 * n - 2) {
                let c = used.get(&idx).copied().unwrap_or(0);
                out.check(c == 1, "C17", &format!("index_merged_{}_times/{m}", if c == 0 { "zero" } else { "several" }), || format!("n={n}: index {idx} is merged {c} times"));
            }
            out.check(!used.contains_key(&(2 * n - 2)), "C17", "root_merged", || "the final cluster is merged again".to_string());
            if let Some(last) = merges.last() {
                out.check(last.len == n, "C17", &format!("last_size/{m}"), || format!("last merge has len {} for n={n}", last.len));
            }
        }
        let mut sorted = indicies.clone();
        sorted.sort_unstable();
        out.check(sorted == (0..n).collect::<Vec<_>>(), "C17", &format!("indicies_not_permutation/{m}"), || format!("indicies() = {indicies:?} for n={n}"));

        // ---- callback log: the first invocation holds every unordered input pair exactly once
        let lg = log.borrow();
        out.bucket_n("callback_invocations", lg.len() as u64);
        if let Some(first) = lg.first() {
            // multiset of unordered pairs of set contents (input sets may be identical)
            let mut expected_pairs: BTreeMap<(Vec<u32>, Vec<u32>), usize> = BTreeMap::new();
            for i in 0..n {
                for j in i + 1..n {
                    let (x, y) = if sets[i] <= sets[j] { (sets[i].clone(), sets[j].clone()) } else { (sets[j].clone(), sets[i].clone()) };
                    *expected_pairs.entry((x, y)).or_insert(0) += 1;
                }
            }
            let mut seen_pairs: BTreeMap<(Vec<u32>, Vec<u32>), usize> = BTreeMap::new();
            for (a, b) in first {
                let (x, y) = if a <= b { (a.clone(), b.clone()) } else { (b.clone(), a.clone()) };
                *seen_pairs.entry((x, y)).or_insert(0) += 1;
            }
            out.check(seen_pairs == expected_pairs, "C17", &format!("initial_pairs/{m}"), || {
                format!("n={n}: initial callback saw {} pairs ({} distinct), expected every unordered pair of the {n} inputs exactly once ({} pairs)", first.len(), seen_pairs.len(), n * (n - 1) / 2)
            });
            out.bucket_n("callback_pairs_logged", lg.iter().map(|v| v.len() as u64).sum());
        } else {
            out.violate("C17", "callback_never_called", "distance callback never invoked".into());
        }

        // ---- replay on a naive agglomerative model
        let mut live: BTreeMap<usize, Vec<u32>> = (0..n).map(|i| (i, sets[i].clone())).collect();
        let mut d: BTreeMap<(usize, usize), f32> = BTreeMap::new();
        for i in 0..n {
            for j in i + 1..n {
                d.insert((i, j), dist_inf(dseed, inf_pair.as_ref(), &sets[i], &sets[j]));
            }
        }
        let key = |a: usize, b: usize| (a.min(b), a.max(b));
        let mut exact = true;
        for (k, mg) in merges.iter().enumerate() {
            if live.len() < 2 {
                break;
            }
            // closest live pair
            let mut best: Option<((usize, usize), f32)> = None;
            let mut second = f32::INFINITY;
            for (kk, v) in &d {
                match best {
                    None => best = Some((*kk, *v)),
                    Some((_, bv)) if *v < bv => {
                        second = bv;
                        best = Some((*kk, *v));
                    }
                    Some(_) => {
                        if *v < second {
                            second = *v;
                        }
                    }
                }
            }
            let Some(((a, b), bv)) = best else { break };
            // the library selects with an exact `<`; only exact equality (incl. two infinities) is a tie
            if second == bv {
                out.bucket("tie_skipped");
                exact = false;
                break;
            }
            let got = key(mg.lhs, mg.rhs);
            if got != (a, b) {
                out.violate(
                    "C17",
                    &format!("not_closest_pair/{m}"),
                    format!("merge {k} joins {got:?} (reported distance {}), but the closest live pair in the model is ({a},{b}) at {bv}; model distance of the joined pair: {:?}", mg.distance, d.get(&got)),
                );
                exact = false;
                break;
            }
            // min / max / user distances are passed through unchanged and the mean is the same f32 expression:
            // the reported distance must be bit-identical
            out.check(mg.distance.to_bits() == bv.to_bits(), "C17", &format!("merge_distance/{m}"), || format!("merge {k} ({a},{b}) reports distance {:e}, model {bv:e}", mg.distance));
            // update
            let new_idx = n + k;
            let sa = live.remove(&a).unwrap();
            let sb = live.remove(&b).unwrap();
            let mut united: Vec<u32> = sa.iter().chain(sb.iter()).copied().collect::<BTreeSet<u32>>().into_iter().collect();
            united.sort_unstable();
            if method == 3 {
                // the (k+1)-th callback invocation asks for the distances of the new set: every pair must
                // contain exactly the union of the two merged sets
                if let Some(inv) = lg.get(k + 1) {
                    let ok = !inv.is_empty() && inv.iter().all(|(x, y)| *x == united || *y == united);
                    out.check(ok, "C17", "union_callback_not_asked_about_the_union", || {
                        format!("after merge {k} of {sa:?} and {sb:?} the callback was asked about {:?}, expected pairs containing the union {united:?}", inv.iter().take(3).collect::<Vec<_>>())
                    });
                } else if live.len() > 0 {
                    out.violate("C17", "union_callback_missing", format!("no callback invocation after merge {k}"));
                }
            }
            for (o, so) in &live {
                let da = d[&key(*o, a)];
                let db = d[&key(*o, b)];
                let nd = match method {
                    0 => da.min(db),
                    1 => da.max(db),
                    2 => (da + db) / 2.0,
                    _ => dist_inf(dseed, inf_pair.as_ref(), &united, so),
                };
                d.insert(key(*o, new_idx), nd);
            }
            d.retain(|(x, y), _| *x != a && *x != b && *y != a && *y != b);
            live.insert(new_idx, united);
        }
        if exact {
            out.bucket("exact_replay_completed");
        }
        out
    }
}
