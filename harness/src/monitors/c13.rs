//! C13: HpoSet filters, replacements and aggregates are exact.

use super::common::*;
use crate::facts::KIND_NAMES;
use crate::gen::GenCfg;
use crate::json::Json;
use crate::model::Model;
use crate::observe::{bump, guard};
use crate::rng::{hash_u64s, Rng};
use crate::runner::{CaseOut, Monitor, Tier};
use hpo::annotations::AnnotationId;
use hpo::term::HpoGroup;
use hpo::{HpoSet, Ontology};
use std::collections::{BTreeMap, BTreeSet};

pub struct C13;

fn set_ids(s: &HpoSet) -> Vec<u32> {
    s.iter().map(|t| t.id().as_u32()).collect()
}

fn mk<'a>(ont: &'a Ontology, ids: &BTreeSet<u32>) -> HpoSet<'a> {
    HpoSet::new(ont, HpoGroup::from(ids.iter().copied().collect::<Vec<u32>>()))
}

impl Monitor for C13 {
    fn id(&self) -> &'static str {
        "C13"
    }
    fn rule(&self) -> String {
        "A case = one ontology with default categories, obsolete, replaced (replacement present; sometimes itself obsolete or already a member) and modifier terms, built through the v3 decoder or hp.obo, and ~12 subsets of its terms (empty, singletons, full, ancestor+descendant mixes, random). For each subset every HpoSet operation (child_nodes, without/remove_modifier, without/remove_obsolete, with_replaced/replace_obsolete, gene/omim/orpha id unions, categories, information_content, len/contains/iter/get) is compared with model predicates over the facts and each in-place variant with its copying twin. Distinct = (fact content, subsets) hash; non-trivial = ontology with >= 4 terms."
            .into()
    }
    fn assumptions(&self) -> Vec<String> {
        vec!["replacement ids always resolve in the same ontology (a dangling replaced_by is outside the statement)".into()]
    }
    fn plan(&self, tier: Tier) -> Vec<String> {
        let mut v: Vec<String> = (0..20).map(|i| format!("cat:{i}")).collect();
        for i in 0..tier.pick(2000, 40_000) {
            v.push(format!("rnd:{i}"));
        }
        v
    }
    fn mandatory_buckets(&self, _tier: Tier) -> Vec<String> {
        [
            "subset/empty",
            "subset/singleton",
            "subset/full",
            "subset/ancestor_with_descendant",
            "subset/more_than_30_members",
            "member_is_modifier",
            "user_defined_modifier_roots_and_categories",
            "member_is_obsolete",
            "member_names_replacement",
            "replacement_collides_with_member",
            "replacement_is_obsolete",
            "member_in_several_categories",
            "operation_histories",
        ]
        .iter()
        .map(|s| (*s).to_string())
        .collect()
    }

    #[allow(clippy::too_many_lines)]
    fn run_case(&self, label: &str, seed: u64, tier: Tier) -> CaseOut {
        let mut out = CaseOut::new();
        let mut rng = Rng::for_case(seed, "C13", label);
        let idx: u64 = label.split(':').nth(1).unwrap().parse().unwrap_or(0);
        let path = if idx % 3 == 2 { PathKind::Jax } else { PathKind::BytesV3 };
        let cfg = GenCfg {
            n_min: 4,
            n_max: if rng.chance(1, 8) { tier.pick(60, 120) } else { 28 },
            defaults: true,
            flags: true,
            dangling_replacement: false,
            empty_recs: path != PathKind::Jax,
            ..GenCfg::default()
        };
        let mut facts = crate::gen::gen_facts(&mut rng, &cfg);
        // more replacements than the generic generator produces, incl. obsolete replacements
        let ids_all: Vec<u32> = facts.terms.iter().map(|t| t.id).collect();
        for i in 0..facts.terms.len() {
            if facts.terms[i].id == 1 || facts.terms[i].id == 118 {
                continue;
            }
            if rng.chance(1, 6) {
                let r = *rng.pick(&ids_all);
                if r != facts.terms[i].id && r != 0 {
                    facts.terms[i].replaced_by = Some(r);
                    if rng.chance(1, 2) {
                        facts.terms[i].obsolete = true;
                    }
                }
            }
        }
        if path == PathKind::Jax {
            jaxable(&mut facts);
        }
        let view = view_for(&facts, path);
        let ont = match construct(&view, path, &mut rng, "c13") {
            Ok(o) => o,
            Err(e) => {
                out.bucket("source_construction_failed");
                out.case = Json::obj().set("source_error", Json::s(e.to_string()));
                return out;
            }
        };
        let mut m = Model::new(&view, true);
        let mut ont = ont;
        // a third of the ontologies get modifier roots and categories of the user's choosing (the two
        // lists are independent of each other and of the default positions below HP:1 / HP:118)
        if rng.chance(1, 3) {
            let all: Vec<u32> = m.ids.iter().copied().collect();
            let pick_some = |rng: &mut Rng, max: usize| -> BTreeSet<u32> {
                let k = rng.urange(0, max.min(all.len()));
                rng.sample_indices(all.len(), k).iter().map(|i| all[*i]).collect()
            };
            let mods = pick_some(&mut rng, 3);
            let cats = pick_some(&mut rng, 5);
            *ont.modifier_mut() = hpo::term::HpoGroup::from(mods.iter().copied().collect::<Vec<u32>>());
            *ont.categories_mut() = hpo::term::HpoGroup::from(cats.iter().copied().collect::<Vec<u32>>());
            m.modifier_roots = mods;
            m.categories = cats;
            out.bucket("user_defined_modifier_roots_and_categories");
        }
        let flags: BTreeMap<u32, (bool, Option<u32>)> = view.terms.iter().map(|t| (t.id, (t.obsolete, t.replaced_by))).collect();
        let ids: Vec<u32> = m.ids.iter().copied().collect();

        // subsets
        let mut subsets: Vec<BTreeSet<u32>> = vec![BTreeSet::new(), ids.iter().copied().collect()];
        subsets.push([*rng.pick(&ids)].into());
        for _ in 0..3 {
            // ancestor together with descendants
            let t = *rng.pick(&ids);
            let mut s: BTreeSet<u32> = [t].into();
            for a in m.anc[&t].iter().filter(|_| rng.chance(1, 2)) {
                s.insert(*a);
            }
            for d in m.desc[&t].iter().filter(|_| rng.chance(1, 3)) {
                s.insert(*d);
            }
            subsets.push(s);
        }
        // members that name a replacement which is also a member
        for (id, (_, r)) in &flags {
            if let Some(r) = r {
                subsets.push([*id, *r].into());
                break;
            }
        }
        for _ in 0..6 {
            let k = rng.urange(1, ids.len().min(14));
            subsets.push(rng.sample_indices(ids.len(), k).iter().map(|i| ids[*i]).collect());
        }
        if ids.len() > 34 {
            // more members than the inline capacity (30) of the id group
            let k = rng.urange(31, ids.len().min(60));
            subsets.push(rng.sample_indices(ids.len(), k).iter().map(|i| ids[*i]).collect());
            out.bucket("subset/more_than_30_members");
        }

        out.sig = hash_u64s(&[view.content_hash(), rng.clone().next_u64()]);
        out.nontrivial = ids.len() >= 4;
        out.case = Json::obj()
            .set("path", Json::s(path.name()))
            .set("facts", view.to_json())
            .set("subsets", Json::Arr(subsets.iter().take(6).map(|s| Json::arr_u32(&s.iter().copied().collect::<Vec<_>>())).collect()));
        let totals = [m.n[0], m.n[1], m.n[2]];

        for s in &subsets {
            match s.len() {
                0 => out.bucket("subset/empty"),
                1 => out.bucket("subset/singleton"),
                n if n == ids.len() => out.bucket("subset/full"),
                _ => {}
            }
            if s.iter().any(|a| s.iter().any(|b| m.anc[b].contains(a))) {
                out.bucket("subset/ancestor_with_descendant");
            }
            for t in s {
                if m.is_modifier(*t) {
                    out.bucket("member_is_modifier");
                }
                if flags[t].0 {
                    out.bucket("member_is_obsolete");
                }
                if let Some(r) = flags[t].1 {
                    out.bucket("member_names_replacement");
                    if s.contains(&r) {
                        out.bucket("replacement_collides_with_member");
                    }
                    if flags.get(&r).is_some_and(|f| f.0) {
                        out.bucket("replacement_is_obsolete");
                    }
                }
                if m.term_categories(*t).len() > 1 {
                    out.bucket("member_in_several_categories");
                }
            }
            let sv: Vec<u32> = s.iter().copied().collect();
            let r = guard(|| {
                let set = mk(&ont, s);
                // basic accessors
                let basic = (set.len(), set.is_empty(), set_ids(&set), (0..=s.len()).map(|i| set.get(i).map(|t| t.id().as_u32())).collect::<Vec<_>>());
                let contains: Vec<bool> = ids.iter().map(|t| set.contains(&crate::observe::hid(*t))).collect();
                let child = set_ids(&set.child_nodes());
                let wo_mod = set_ids(&set.without_modifier());
                let wo_obs = set_ids(&set.without_obsolete());
                let repl = set_ids(&set.with_replaced_obsolete());
                let mut a = mk(&ont, s);
                a.remove_modifier();
                let mut b = mk(&ont, s);
                b.remove_obsolete();
                let mut c = mk(&ont, s);
                c.replace_obsolete();
                let inplace = (set_ids(&a), set_ids(&b), set_ids(&c));
                let g: BTreeSet<u32> = set.gene_ids().iter().map(|x| x.as_u32()).collect();
                let o: BTreeSet<u32> = set.omim_disease_ids().iter().map(|x| x.as_u32()).collect();
                let p: BTreeSet<u32> = set.orpha_disease_ids().iter().map(|x| x.as_u32()).collect();
                let cats: BTreeMap<u32, usize> = set.categories().iter().map(|(k, v)| (k.as_u32(), *v)).collect();
                let ic = set.information_content().map(|ic| (ic.gene(), ic.omim_disease())).map_err(|e| e.to_string());
                (basic, contains, child, wo_mod, wo_obs, repl, inplace, [g, o, p], cats, ic)
            });
            for n in ["len", "iter", "get", "contains", "child_nodes", "without_modifier", "without_obsolete", "with_replaced_obsolete", "remove_modifier", "remove_obsolete", "replace_obsolete", "gene_ids", "omim_disease_ids", "orpha_disease_ids", "categories", "information_content"] {
                bump(&mut out.events, n);
            }
            let (basic, contains, child, wo_mod, wo_obs, repl, inplace, links, cats, ic) = match r {
                Ok(x) => x,
                Err(p) => {
                    out.violate("C13", "panic", format!("subset {sv:?}: {} at {}", p.message, p.location));
                    continue;
                }
            };
            out.check(basic.0 == s.len() && basic.1 == s.is_empty() && basic.2 == sv, "C13", "len_iter", || {
                format!("subset {sv:?}: len {} is_empty {} iter {:?}", basic.0, basic.1, basic.2)
            });
            let exp_get: Vec<Option<u32>> = sv.iter().map(|x| Some(*x)).chain([None]).collect();
            out.check(basic.3 == exp_get, "C13", "get", || format!("subset {sv:?}: get(i) = {:?}", basic.3));
            let exp_contains: Vec<bool> = ids.iter().map(|t| s.contains(t)).collect();
            out.check(contains == exp_contains, "C13", "contains", || format!("subset {sv:?}: contains() disagrees with membership"));

            let e_child: Vec<u32> = sv.iter().copied().filter(|x| !s.iter().any(|y| y != x && m.anc[y].contains(x))).collect();
            out.check(child == e_child, "C13", "child_nodes", || format!("subset {sv:?}: child_nodes = {child:?}, members without a descendant in the set = {e_child:?}"));
            let e_mod: Vec<u32> = sv.iter().copied().filter(|x| !m.is_modifier(*x)).collect();
            out.check(wo_mod == e_mod, "C13", "without_modifier", || format!("subset {sv:?}: without_modifier = {wo_mod:?}, expected {e_mod:?} (modifier roots {:?})", m.modifier_roots));
            let e_obs: Vec<u32> = sv.iter().copied().filter(|x| !flags[x].0).collect();
            out.check(wo_obs == e_obs, "C13", "without_obsolete", || format!("subset {sv:?}: without_obsolete = {wo_obs:?}, expected {e_obs:?}"));
            let e_repl: Vec<u32> = sv.iter().map(|x| flags[x].1.unwrap_or(*x)).collect::<BTreeSet<u32>>().into_iter().collect();
            out.check(repl == e_repl, "C13", "with_replaced_obsolete", || format!("subset {sv:?}: with_replaced_obsolete = {repl:?}, expected {e_repl:?}"));
            out.check(inplace.0 == wo_mod, "C13", "remove_modifier_twin", || format!("subset {sv:?}: remove_modifier {:?} != without_modifier {wo_mod:?}", inplace.0));
            out.check(inplace.1 == wo_obs, "C13", "remove_obsolete_twin", || format!("subset {sv:?}: remove_obsolete {:?} != without_obsolete {wo_obs:?}", inplace.1));
            out.check(inplace.2 == repl, "C13", "replace_obsolete_twin", || format!("subset {sv:?}: replace_obsolete {:?} != with_replaced_obsolete {repl:?}", inplace.2));
            for k in 0..3 {
                let mut e: BTreeSet<u32> = BTreeSet::new();
                for t in s {
                    e.extend(m.links[k][t].iter().copied());
                }
                out.check(links[k] == e, "C13", &format!("union_ids/{}", KIND_NAMES[k]), || {
                    format!("subset {sv:?}: {} ids {:?}, union over members {:?}", KIND_NAMES[k], links[k], e)
                });
            }
            let mut e_cats: BTreeMap<u32, usize> = BTreeMap::new();
            for t in s {
                for c in m.term_categories(*t) {
                    *e_cats.entry(c).or_insert(0) += 1;
                }
            }
            out.check(cats == e_cats, "C13", "categories", || format!("subset {sv:?}: categories {cats:?}, per-category member counts {e_cats:?}"));
            match ic {
                Ok((g, o)) => {
                    for (k, v) in [(0usize, g), (1usize, o)] {
                        let n = links[k].len();
                        let e = if n == 0 || totals[k] == 0 { 0.0 } else { -((n as f64) / (totals[k] as f64)).ln() };
                        out.check(crate::observe::ic_close(v, e), "C13", &format!("information_content/{}", KIND_NAMES[k]), || {
                            format!("subset {sv:?}: aggregated {} IC = {v}, -ln({n}/{}) = {e}", KIND_NAMES[k], totals[k])
                        });
                    }
                }
                Err(e) => out.violate("C13", "information_content_err", format!("subset {sv:?}: {e}")),
            }
        }
        // ---- operation histories on ONE HpoSet object: queries and in-place operations interleaved; after
        // every step all aggregates must describe the current member set (catches caches inside the set
        // that an in-place operation forgets to reset)
        for h in 0..3 {
            let k = rng.urange(1, ids.len().min(12));
            let mut members: BTreeSet<u32> = rng.sample_indices(ids.len(), k).iter().map(|i| ids[*i]).collect();
            // make sure modifier / obsolete / replaced members take part
            for (id, (obs, repl)) in &flags {
                if (m.is_modifier(*id) || *obs || repl.is_some()) && rng.chance(1, 3) {
                    members.insert(*id);
                }
            }
            let start: Vec<u32> = members.iter().copied().collect();
            let mut ops: Vec<String> = Vec::new();
            let res = guard(|| {
                let mut local = CaseOut::new();
                let mut set = mk(&ont, &members);
                for step in 0..rng.urange(3, 9) {
                    let op = rng.below(8);
                    match op {
                        0 => {
                            set.remove_modifier();
                            members.retain(|x| !m.is_modifier(*x));
                            ops.push("remove_modifier".into());
                        }
                        1 => {
                            set.remove_obsolete();
                            members.retain(|x| !flags[x].0);
                            ops.push("remove_obsolete".into());
                        }
                        2 => {
                            set.replace_obsolete();
                            members = members.iter().map(|x| flags[x].1.unwrap_or(*x)).collect();
                            ops.push("replace_obsolete".into());
                        }
                        3 => {
                            let extra = *rng.pick(&ids);
                            set.extend(std::iter::once(ont.hpo(extra).expect("term")));
                            members.insert(extra);
                            ops.push(format!("extend({extra})"));
                        }
                        _ => ops.push("query".into()),
                    }
                    // every aggregate after every step
                    let mv: Vec<u32> = members.iter().copied().collect();
                    let got_ids = set_ids(&set);
                    local.check(got_ids == mv && set.len() == mv.len(), "C13", "history/members", || format!("history {h} step {step} ({ops:?} from {start:?}): members {got_ids:?}, expected {mv:?}"));
                    for kk in 0..3 {
                        let got: BTreeSet<u32> = match kk {
                            0 => set.gene_ids().iter().map(|x| x.as_u32()).collect(),
                            1 => set.omim_disease_ids().iter().map(|x| x.as_u32()).collect(),
                            _ => set.orpha_disease_ids().iter().map(|x| x.as_u32()).collect(),
                        };
                        let mut e: BTreeSet<u32> = BTreeSet::new();
                        for t in &members {
                            e.extend(m.links[kk][t].iter().copied());
                        }
                        local.check(got == e, "C13", &format!("history/union_ids/{}", KIND_NAMES[kk]), || {
                            format!("history {h} step {step} ({ops:?} from {start:?}): {} ids {got:?}, union over the current members {e:?}", KIND_NAMES[kk])
                        });
                        if kk < 2 {
                            if let Ok(ic) = set.information_content() {
                                let v = if kk == 0 { ic.gene() } else { ic.omim_disease() };
                                let n = e.len();
                                let exp = if n == 0 || totals[kk] == 0 { 0.0 } else { -((n as f64) / (totals[kk] as f64)).ln() };
                                local.check(crate::observe::ic_close(v, exp), "C13", &format!("history/information_content/{}", KIND_NAMES[kk]), || {
                                    format!("history {h} step {step} ({ops:?} from {start:?}): aggregated IC {v}, expected {exp}")
                                });
                            }
                        }
                    }
                    let cats: BTreeMap<u32, usize> = set.categories().iter().map(|(k, v)| (k.as_u32(), *v)).collect();
                    let mut e_cats: BTreeMap<u32, usize> = BTreeMap::new();
                    for t in &members {
                        for c in m.term_categories(*t) {
                            *e_cats.entry(c).or_insert(0) += 1;
                        }
                    }
                    local.check(cats == e_cats, "C13", "history/categories", || format!("history {h} step {step} ({ops:?} from {start:?}): categories {cats:?}, expected {e_cats:?}"));
                    let child = set_ids(&set.child_nodes());
                    let e_child: Vec<u32> = mv.iter().copied().filter(|x| !members.iter().any(|y| y != x && m.anc[y].contains(x))).collect();
                    local.check(child == e_child, "C13", "history/child_nodes", || format!("history {h} step {step}: child_nodes {child:?}, expected {e_child:?}"));
                }
                local
            });
            bump(&mut out.events, "HpoSet::operation_history");
            out.bucket("operation_histories");
            match res {
                Ok(local) => {
                    out.comparisons += local.comparisons;
                    out.violations.extend(local.violations);
                }
                Err(p) => out.violate("C13", "panic:history", format!("history {h} ({ops:?} from {start:?}): {} at {}", p.message, p.location)),
            }
        }
        out
    }
}
