//! C05: set similarity = funSimAvg / funSimMax / BMA of the pairwise matrix; caching adaptor transparent.

use crate::json::Json;
use crate::observe::{bump, guard};
use crate::rng::{hash_u64s, Rng};
use crate::runner::{CaseOut, Monitor, Tier};
use hpo::annotations::AnnotationId;
use hpo::builder::Builder;
use hpo::matrix::Matrix;
use hpo::similarity::{CachedSimilarity, GroupSimilarity, Similarity, SimilarityCombiner, StandardCombiner};
use hpo::term::HpoGroup;
use hpo::{HpoSet, HpoTerm, Ontology};
use std::cell::RefCell;
use std::collections::BTreeMap;

pub struct C05;

const COMBINERS: [(StandardCombiner, &str); 3] = [
    (StandardCombiner::FunSimAvg, "funsimavg"),
    (StandardCombiner::FunSimMax, "funsimmax"),
    (StandardCombiner::Bma, "bma"),
];

/// model of the three combiners in f64. `m[i][j]`, r rows, c cols, both > 0
fn model(m: &[Vec<f64>], which: usize) -> f64 {
    let r = m.len();
    let c = m[0].len();
    let row_max: Vec<f64> = m.iter().map(|row| row.iter().copied().fold(f64::NEG_INFINITY, f64::max)).collect();
    let col_max: Vec<f64> = (0..c).map(|j| (0..r).map(|i| m[i][j]).fold(f64::NEG_INFINITY, f64::max)).collect();
    let rs: f64 = row_max.iter().sum();
    let cs: f64 = col_max.iter().sum();
    match which {
        0 => (rs / r as f64 + cs / c as f64) / 2.0,
        1 => (rs / r as f64).max(cs / c as f64),
        _ => (rs + cs) / (r + c) as f64,
    }
}

/// f32 result against the f64 model. The tolerance is relative to the SCALE of the matrix (largest
/// finite |entry|), so that similarities on a tiny scale (1e-8, 1e-30) are judged as strictly as
/// those in 0..1; an infinite or NaN model value must be met exactly.
fn close_at(obs: f32, exp: f64, scale: f64) -> bool {
    let o = f64::from(obs);
    if exp.is_nan() {
        return o.is_nan();
    }
    if exp.is_infinite() {
        return o == exp;
    }
    o.is_finite() && (o - exp).abs() <= 2e-5 * scale.max(exp.abs()) + 1e-44
}

fn scale_of(m: &[Vec<f64>]) -> f64 {
    m.iter().flatten().copied().filter(|x| x.is_finite()).fold(0.0f64, |a, b| a.max(b.abs()))
}

fn gen_value(rng: &mut Rng, mode: u64) -> f32 {
    match mode % 11 {
        // tiny scales (a similarity like a joint frequency)
        6 => (rng.f64() * 1e-8) as f32,
        7 => (1.0 + rng.f64()) as f32 * 1e-30,
        // a similarity like 1/distance or ln(frequency): +inf (or -inf) now and then, never both
        8 => if rng.chance(1, 6) { f32::INFINITY } else { rng.f64() as f32 },
        9 => if rng.chance(1, 4) { f32::NEG_INFINITY } else { (rng.f64() * 4.0 - 2.0) as f32 },
        // nearly equal values: row and column means differ in the last bits only
        10 => 0.5 + (rng.below(4) as f32) * f32::EPSILON,
        0 => (rng.f64() as f32),                       // [0,1)
        1 => (rng.f64() * 20.0 - 10.0) as f32,         // negatives
        2 => [0.0f32, 1.0, 0.5][rng.usize_below(3)],   // duplicates / zeros
        3 => (rng.below(4) as f32) - 1.5,
        4 => (rng.f64() * 1e-3) as f32,
        _ => (rng.f64() * 100.0) as f32,
    }
}

/// user-supplied similarity: seeded, asymmetric table over term-id pairs; logs its invocations
struct TableSim {
    seed: u64,
    symmetric: bool,
    mode: u64,
    calls: RefCell<Vec<(u32, u32)>>,
}

impl TableSim {
    fn value(&self, a: u32, b: u32) -> f32 {
        let (x, y) = if self.symmetric && a > b { (b, a) } else { (a, b) };
        let h = hash_u64s(&[self.seed, u64::from(x), u64::from(y)]);
        let mut r = Rng::new(h);
        gen_value(&mut r, self.mode)
    }
}

impl Similarity for TableSim {
    fn calculate(&self, a: &HpoTerm, b: &HpoTerm) -> f32 {
        self.calls.borrow_mut().push((a.id().as_u32(), b.id().as_u32()));
        self.value(a.id().as_u32(), b.id().as_u32())
    }
}

/// passes any similarity by reference where the API wants it by value
struct ByRef<'a, S: Similarity>(&'a S);

impl<S: Similarity> Similarity for ByRef<'_, S> {
    fn calculate(&self, a: &HpoTerm, b: &HpoTerm) -> f32 {
        self.0.calculate(a, b)
    }
}

fn flat_ontology(ids: &[u32]) -> Ontology {
    let mut b = Builder::new();
    b.new_term("root", 1u32);
    for id in ids {
        b.new_term(&format!("t{id}"), *id);
    }
    let mut b = b.terms_complete();
    for id in ids {
        b.add_parent(1u32, *id).unwrap();
    }
    b.connect_all_terms().calculate_information_content().unwrap().build_minimal()
}

/// the same flat ontology through the v3 decoder, a third of the terms flagged obsolete (an obsolete
/// term is an ordinary member of a set: the user's similarity decides what it scores)
fn flat_ontology_with_obsolete(ids: &[u32], rng: &mut Rng) -> Option<Ontology> {
    use crate::facts::{FactSet, TermFact};
    let mut f = FactSet::default();
    f.terms.push(TermFact { id: 1, name: "root".into(), obsolete: false, replaced_by: None });
    f.terms.push(TermFact { id: 118, name: "phenotype".into(), obsolete: false, replaced_by: None });
    f.edges.push((118, 1));
    for id in ids {
        if *id == 1 || *id == 118 {
            continue;
        }
        f.terms.push(TermFact { id: *id, name: format!("t{id}"), obsolete: rng.chance(1, 3), replaced_by: None });
        f.edges.push((*id, 1));
    }
    crate::drive::via_bytes(&f, 3).1.ok()
}

impl C05 {
    fn matrix_case(&self, r: usize, c: usize, rng: &mut Rng, out: &mut CaseOut) {
        let mode = rng.next_u64();
        let data: Vec<f32> = (0..r * c).map(|_| gen_value(rng, mode)).collect();
        let m = Matrix::new(r, c, &data);
        out.bucket(if r == c { "shape/square" } else if r == 1 || c == 1 { "shape/vector" } else { "shape/rectangular" });
        if r == 0 || c == 0 {
            out.bucket("shape/empty");
            for (comb, name) in COMBINERS {
                bump(&mut out.events, "SimilarityCombiner::calculate");
                match guard(|| comb.calculate(&m)) {
                    Ok(v) => out.check(v == 0.0, "C05", &format!("empty_matrix_not_zero/{name}"), || format!("{name} of a {r}x{c} matrix = {v}")),
                    Err(p) => out.violate("C05", &format!("panic:empty_matrix/{name}"), format!("{r}x{c}: {}", p.message)),
                }
            }
            return;
        }
        let m64: Vec<Vec<f64>> = (0..r).map(|i| (0..c).map(|j| f64::from(data[i * c + j])).collect()).collect();
        for (w, (comb, name)) in COMBINERS.iter().enumerate() {
            bump(&mut out.events, "SimilarityCombiner::calculate");
            let exp = model(&m64, w);
            match guard(|| comb.calculate(&m)) {
                Ok(v) => out.check(close_at(v, exp, scale_of(&m64)), "C05", &format!("combiner_value/{name}"), || {
                    format!("{name} of {r}x{c} matrix {data:?} = {v}, model = {exp}")
                }),
                Err(p) => out.violate("C05", &format!("panic:combiner/{name}"), format!("{r}x{c}: {} at {}", p.message, p.location)),
            }
        }
        // rows / cols iterators, dim, len
        bump(&mut out.events, "Matrix::rows");
        bump(&mut out.events, "Matrix::cols");
        let rows: Vec<Vec<f32>> = m.rows().map(|row| row.copied().collect()).collect();
        let cols: Vec<Vec<f32>> = m.cols().map(|col| col.copied().collect()).collect();
        let erows: Vec<Vec<f32>> = (0..r).map(|i| data[i * c..(i + 1) * c].to_vec()).collect();
        let ecols: Vec<Vec<f32>> = (0..c).map(|j| (0..r).map(|i| data[i * c + j]).collect()).collect();
        out.check(rows == erows, "C05", "matrix_rows", || format!("{r}x{c}: rows() = {rows:?}, expected {erows:?}"));
        out.check(cols == ecols, "C05", "matrix_cols", || format!("{r}x{c}: cols() = {cols:?}, expected {ecols:?}"));
        out.check(m.dim() == (r, c) && m.len() == r * c && !m.is_empty(), "C05", "matrix_dim", || format!("dim {:?} len {}", m.dim(), m.len()));
        let comb = StandardCombiner::default();
        let rm = comb.row_maxes(&m);
        let cm = comb.col_maxes(&m);
        let erm: Vec<f32> = erows.iter().map(|x| x.iter().copied().fold(f32::NEG_INFINITY, f32::max)).collect();
        let ecm: Vec<f32> = ecols.iter().map(|x| x.iter().copied().fold(f32::NEG_INFINITY, f32::max)).collect();
        out.check(rm == erm, "C05", "row_maxes", || format!("row_maxes {rm:?} expected {erm:?}"));
        out.check(cm == ecm, "C05", "col_maxes", || format!("col_maxes {cm:?} expected {ecm:?}"));
    }

    fn set_case(&self, rng: &mut Rng, out: &mut CaseOut) -> Json {
        let n_terms = 26usize;
        // ids chosen so that sloppy cache keys collide: dense small ids (sums / xors collide) and ids of
        // the form 65536*j + c (bit-packing with a too small shift collides with (a | j, c))
        let mut ids: Vec<u32> = (2..=9).collect();
        for j in 1..=3u32 {
            for c in 2..=7u32 {
                ids.push(65_536 * j + c);
            }
        }
        if rng.chance(1, 3) {
            // or arbitrary sparse ids
            let mut set = std::collections::BTreeSet::new();
            while set.len() < n_terms {
                set.insert(rng.range(2, 9_999_999) as u32);
            }
            ids = set.into_iter().collect();
        }
        assert_eq!(ids.len(), n_terms);
        // HP:0000000 is an ordinary term id: in a third of the cases it is the smallest member
        if rng.chance(1, 3) {
            ids[0] = 0;
            out.bucket("term_id_0_in_sets");
        }
        let ont = if rng.chance(1, 3) {
            match flat_ontology_with_obsolete(&ids, rng) {
                Some(o) => {
                    out.bucket("sets_with_obsolete_members");
                    o
                }
                None => flat_ontology(&ids),
            }
        } else {
            flat_ontology(&ids)
        };
        let sim = TableSim { seed: rng.next_u64(), symmetric: rng.chance(1, 3), mode: rng.next_u64(), calls: RefCell::new(vec![]) };
        let cached = CachedSimilarity::new(ByRef(&sim));
        let n_pairs = rng.urange(2, 6);
        let mut desc = Vec::new();
        out.bucket(if sim.symmetric { "similarity/symmetric" } else { "similarity/asymmetric" });
        for _ in 0..n_pairs {
            let na = rng.urange(0, 12);
            let nb = if rng.chance(1, 3) { na } else { rng.urange(0, 12) };
            // few terms, so the shared cache is hit across pairs
            let pool = &ids[..rng.urange(na.max(nb).max(1), n_terms)];
            let mut a: Vec<u32> = rng.sample_indices(pool.len(), na).iter().map(|i| pool[*i]).collect();
            let mut b: Vec<u32> = rng.sample_indices(pool.len(), nb).iter().map(|i| pool[*i]).collect();
            a.sort_unstable();
            b.sort_unstable();
            desc.push(Json::obj().set("a", Json::arr_u32(&a)).set("b", Json::arr_u32(&b)));
            out.bucket(&format!("set_shape/{}", if na == 0 || nb == 0 { "empty_side" } else if na == nb { "square" } else { "rectangular" }));
            let sa = HpoSet::new(&ont, HpoGroup::from(a.clone()));
            let sb = HpoSet::new(&ont, HpoGroup::from(b.clone()));
            for (w, (comb, name)) in COMBINERS.iter().enumerate() {
                for (first, second, fa, fb) in [(&sa, &sb, &a, &b), (&sb, &sa, &b, &a)] {
                    let (exp, scale) = if fa.is_empty() || fb.is_empty() {
                        (0.0, 1.0)
                    } else {
                        let m: Vec<Vec<f64>> = fa.iter().map(|x| fb.iter().map(|y| f64::from(sim.value(*x, *y))).collect()).collect();
                        (model(&m, w), scale_of(&m))
                    };
                    sim.calls.borrow_mut().clear();
                    bump(&mut out.events, "HpoSet::similarity");
                    let got = guard(|| first.similarity(second, ByRef(&sim), *comb));
                    let n_calls = sim.calls.borrow().len();
                    bump(&mut out.events, "GroupSimilarity::calculate");
                    let got2 = guard(|| GroupSimilarity::new(*comb, ByRef(&sim)).calculate(first, second));
                    bump(&mut out.events, "CachedSimilarity");
                    let got3 = guard(|| first.similarity(second, ByRef(&cached), *comb));
                    match (got, got2, got3) {
                        (Ok(v), Ok(v2), Ok(v3)) => {
                            if fa.is_empty() || fb.is_empty() {
                                out.check(v == 0.0, "C05", &format!("empty_set_not_zero/{name}"), || format!("{name}({fa:?},{fb:?}) = {v}"));
                            }
                            out.check(close_at(v, exp, scale), "C05", &format!("set_similarity/{name}"), || {
                                format!("{name}({fa:?},{fb:?}) = {v}, model on the |A|x|B| matrix = {exp}")
                            });
                            out.check(v.to_bits() == v2.to_bits(), "C05", "group_similarity_twin", || format!("HpoSet::similarity {v} != GroupSimilarity::calculate {v2}"));
                            out.check(v.to_bits() == v3.to_bits(), "C05", &format!("cache_changes_result/{name}"), || {
                                format!("{name}({fa:?},{fb:?}) = {v} uncached but {v3} through CachedSimilarity")
                            });
                            out.check(n_calls == fa.len() * fb.len(), "C05", "similarity_call_count", || {
                                format!("term similarity invoked {n_calls} times for a {}x{} comparison", fa.len(), fb.len())
                            });
                        }
                        (a, b, c) => {
                            for r in [a, b, c] {
                                if let Err(p) = r {
                                    out.violate("C05", &format!("panic:set_similarity/{name}"), format!("({fa:?},{fb:?}): {} at {}", p.message, p.location));
                                }
                            }
                        }
                    }
                }
                // a set compared with itself (the very same object on both sides, as on the diagonal of an
                // all-vs-all loop): still the full |A|x|A| matrix of the user's (possibly asymmetric) f
                if !a.is_empty() {
                    let m: Vec<Vec<f64>> = a.iter().map(|x| a.iter().map(|y| f64::from(sim.value(*x, *y))).collect()).collect();
                    let exp = model(&m, w);
                    let scale = scale_of(&m);
                    out.bucket("same_object_on_both_sides");
                    bump(&mut out.events, "HpoSet::similarity");
                    bump(&mut out.events, "GroupSimilarity::calculate");
                    match (guard(|| sa.similarity(&sa, ByRef(&sim), *comb)), guard(|| GroupSimilarity::new(*comb, ByRef(&sim)).calculate(&sa, &sa))) {
                        (Ok(v), Ok(v2)) => {
                            out.check(close_at(v, exp, scale), "C05", &format!("set_similarity_same_object/{name}"), || {
                                format!("{name}(A,A) with A = {a:?} (one object) = {v}, model on the |A|x|A| matrix = {exp}")
                            });
                            out.check(v.to_bits() == v2.to_bits(), "C05", "group_similarity_twin", || format!("HpoSet::similarity {v} != GroupSimilarity::calculate {v2} (same object)"));
                        }
                        (x, y) => {
                            for r in [x, y] {
                                if let Err(p) = r {
                                    out.violate("C05", &format!("panic:set_similarity/{name}"), format!("(A,A) A={a:?}: {} at {}", p.message, p.location));
                                }
                            }
                        }
                    }
                }
                if sim.symmetric && !a.is_empty() && !b.is_empty() {
                    let x = sa.similarity(&sb, ByRef(&sim), *comb);
                    let y = sb.similarity(&sa, ByRef(&sim), *comb);
                    let same = x == y || (x.is_nan() && y.is_nan()) || (x.is_finite() && y.is_finite() && (f64::from(x) - f64::from(y)).abs() <= 1e-5 * f64::from(x.abs()));
                    out.check(same, "C05", &format!("order_dependence/{name}"), || {
                        format!("{name}(A,B) = {x} but (B,A) = {y} under a symmetric term similarity")
                    });
                }
            }
        }
        // a second wrapper around ANOTHER similarity, alive at the same time and used alternately: each
        // wrapper answers with its own function
        {
            let sim2 = TableSim { seed: rng.next_u64(), symmetric: false, mode: rng.next_u64(), calls: RefCell::new(vec![]) };
            let cached2 = CachedSimilarity::new(ByRef(&sim2));
            out.bucket("two_cached_wrappers_alive");
            for x in ids.iter().take(8) {
                for y in ids.iter().take(8) {
                    let (tx, ty) = (ont.hpo(*x).unwrap(), ont.hpo(*y).unwrap());
                    let v1 = cached.calculate(&tx, &ty);
                    let v2 = cached2.calculate(&tx, &ty);
                    let v1b = cached.calculate(&tx, &ty);
                    out.check(v1.to_bits() == sim.value(*x, *y).to_bits() && v1b.to_bits() == v1.to_bits(), "C05", "cache_returns_other_value", || {
                        format!("first wrapper ({x},{y}) = {v1} / {v1b}, its f = {}", sim.value(*x, *y))
                    });
                    out.check(v2.to_bits() == sim2.value(*x, *y).to_bits(), "C05", "cache_returns_other_value", || {
                        format!("second wrapper ({x},{y}) = {v2}, its f = {} (the first wrapper's f = {})", sim2.value(*x, *y), sim.value(*x, *y))
                    });
                }
            }
        }
        // the cache must return f for any query afterwards as well
        for x in &ids {
            for y in &ids {
                let (tx, ty) = (ont.hpo(*x).unwrap(), ont.hpo(*y).unwrap());
                let v = cached.calculate(&tx, &ty);
                out.check(v.to_bits() == sim.value(*x, *y).to_bits(), "C05", "cache_returns_other_value", || {
                    format!("CachedSimilarity({x},{y}) = {v}, f = {}", sim.value(*x, *y))
                });
                // and again (now certainly served from the cache)
                let v2 = cached.calculate(&tx, &ty);
                out.check(v2.to_bits() == v.to_bits(), "C05", "cache_unstable", || format!("CachedSimilarity({x},{y}) returned {v} then {v2}"));
            }
        }
        bump(&mut out.events, "CachedSimilarity::all_pairs");
        Json::obj().set("symmetric_f", Json::Bool(sim.symmetric)).set("set_pairs", Json::Arr(desc))
    }
}

impl C05 {
    /// sets at the documented size limit (65 535 members) against tiny sets, and sets beyond it
    /// against the empty set (result 0 by definition, no matrix involved)
    fn huge_case(&self, rng: &mut Rng, thorough: bool, out: &mut CaseOut) -> Json {
        let n_terms = 65_600 + rng.urange(0, 300);
        let ids: Vec<u32> = (2..(2 + n_terms as u32)).collect();
        let ont = flat_ontology(&ids);
        let sim = TableSim { seed: rng.next_u64(), symmetric: false, mode: rng.next_u64(), calls: RefCell::new(vec![]) };
        let pick = |n: usize, r: &mut Rng| -> Vec<u32> {
            let start = r.urange(0, ids.len() - n);
            ids[start..start + n].to_vec()
        };
        let small_n = rng.urange(1, 3);
        let shapes: Vec<(usize, usize)> = vec![(65_535, 1), (65_535 - small_n, small_n + rng.urange(1, 4)), (20_000, 2), (ids.len(), 0), (65_536, 0), (65_535, 0)];
        // the library walks a wide matrix (few rows, many columns) in time quadratic in the number of
        // columns: the (small, huge) argument order is affordable only in the thorough tier
        let wide_limit = if thorough { usize::MAX } else { 20_000 };
        let mut desc = Vec::new();
        for (na, nb) in shapes {
            let a = pick(na, rng);
            let b = pick(nb, rng);
            desc.push(Json::obj().set("size_a", Json::us(na)).set("size_b", Json::us(nb)));
            out.bucket(if nb == 0 { if na > 65_535 { "huge/more_than_65535_vs_empty" } else { "huge/65535_vs_empty" } } else if na + nb > 65_535 { "huge/sizes_sum_above_65535" } else { "huge/other" });
            let sa = HpoSet::new(&ont, HpoGroup::from(a.clone()));
            let sb = HpoSet::new(&ont, HpoGroup::from(b.clone()));
            for (w, (comb, name)) in COMBINERS.iter().enumerate() {
                for (first, second, fa, fb) in [(&sa, &sb, &a, &b), (&sb, &sa, &b, &a)] {
                    if !fa.is_empty() && fa.len() < fb.len() && fb.len() > wide_limit {
                        continue;
                    }
                    let (exp, scale) = if fa.is_empty() || fb.is_empty() {
                        (0.0, 1.0)
                    } else {
                        let m: Vec<Vec<f64>> = fa.iter().map(|x| fb.iter().map(|y| f64::from(sim.value(*x, *y))).collect()).collect();
                        (model(&m, w), scale_of(&m))
                    };
                    sim.calls.borrow_mut().clear();
                    bump(&mut out.events, "HpoSet::similarity");
                    bump(&mut out.events, "GroupSimilarity::calculate");
                    let got = guard(|| first.similarity(second, ByRef(&sim), *comb));
                    let got2 = guard(|| GroupSimilarity::new(*comb, ByRef(&sim)).calculate(first, second));
                    for (api, g) in [("HpoSet::similarity", got), ("GroupSimilarity::calculate", got2)] {
                        match g {
                            Ok(v) => {
                                if fa.is_empty() || fb.is_empty() {
                                    out.check(v == 0.0, "C05", &format!("empty_set_not_zero/{name}"), || format!("{api} {name}(|A|={}, |B|={}) = {v}", fa.len(), fb.len()));
                                } else {
                                    out.check(close_at(v, exp, scale), "C05", &format!("set_similarity/{name}"), || {
                                        format!("{api} {name}(|A|={}, |B|={}) = {v}, model on the matrix = {exp}", fa.len(), fb.len())
                                    });
                                }
                            }
                            Err(p) => out.violate("C05", &format!("panic:set_similarity/{name}"), format!("{api} (|A|={}, |B|={}): {} at {}", fa.len(), fb.len(), p.message, p.location)),
                        }
                    }
                }
            }
        }
        Json::obj().set("kind", Json::s("sets at and beyond the 65 535 limit")).set("terms", Json::us(n_terms)).set("set_pairs", Json::Arr(desc))
    }
}

impl Monitor for C05 {
    fn id(&self) -> &'static str {
        "C05"
    }
    fn rule(&self) -> String {
        "(a) raw matrices: every shape r x c with r, c in 0..=12 (catalogue covers all 169 shapes each run), contents seeded (negatives, zeros, duplicates, tiny and large values), fed to the three StandardCombiners and to Matrix::rows/cols/row_maxes/col_maxes, compared with an f64 model; \
         (b) set pairs of sizes 0..12 on a flat ontology through HpoSet::similarity and GroupSimilarity::calculate with a user-supplied seeded ASYMMETRIC (or symmetric) table similarity that logs its invocations, both argument orders, and the same history through one shared CachedSimilarity. \
         Distinct = distinct (shape, contents) hash; non-trivial = both dimensions > 0."
            .into()
    }
    fn assumptions(&self) -> Vec<String> {
        vec!["matrix values are not NaN (NaN ordering is outside the statement); each set has at most 65 535 members unless the other one is empty".into(), "f32 result vs f64 model at 2e-5 * max(largest finite |entry|, |v|); infinite model values must be met exactly; matrices never hold +inf and -inf together (their sum is NaN by IEEE, not by the library)".into()]
    }
    fn plan(&self, tier: Tier) -> Vec<String> {
        let mut v = Vec::new();
        for r in 0..=12 {
            for c in 0..=12 {
                v.push(format!("shape:{r}:{c}"));
            }
        }
        // beyond the exhaustive 0..=12 range: long vectors and sizes around 30/31 and 255/256
        for (r, c) in [(1, 40), (40, 1), (30, 31), (31, 30), (31, 31), (2, 255), (256, 2), (64, 64)] {
            v.push(format!("shape:{r}:{c}"));
        }
        for i in 0..tier.pick(1, 4) {
            v.push(format!("huge:{i}"));
        }
        for i in 0..tier.pick(10_000, 200_000) {
            v.push(format!("rndm:{i}"));
        }
        for i in 0..tier.pick(2000, 30_000) {
            v.push(format!("rnds:{i}"));
        }
        v
    }
    fn mandatory_buckets(&self, _tier: Tier) -> Vec<String> {
        ["shape/square", "shape/vector", "shape/rectangular", "shape/empty", "similarity/asymmetric", "similarity/symmetric", "set_shape/empty_side", "set_shape/rectangular", "set_shape/square", "same_object_on_both_sides", "term_id_0_in_sets", "two_cached_wrappers_alive", "sets_with_obsolete_members", "huge/more_than_65535_vs_empty", "huge/sizes_sum_above_65535"]
            .iter()
            .map(|s| (*s).to_string())
            .collect()
    }
    fn extra_coverage(&self, _tier: Tier, _b: &BTreeMap<String, u64>) -> Vec<(String, Json)> {
        vec![("exhaustive_subspace".into(), Json::s("all 169 matrix shapes r,c in 0..=12 are covered in every run; contents are sampled"))]
    }
    fn run_case(&self, label: &str, seed: u64, tier: Tier) -> CaseOut {
        let mut out = CaseOut::new();
        let mut rng = Rng::for_case(seed, "C05", label);
        let parts: Vec<&str> = label.split(':').collect();
        match parts[0] {
            "shape" | "rndm" => {
                let (r, c) = if parts[0] == "shape" {
                    (parts[1].parse().unwrap(), parts[2].parse().unwrap())
                } else {
                    (rng.urange(0, 12), rng.urange(0, 12))
                };
                let mut r2 = rng.clone();
                self.matrix_case(r, c, &mut rng, &mut out);
                out.sig = hash_u64s(&[r as u64, c as u64, r2.next_u64()]);
                out.nontrivial = r > 0 && c > 0;
                out.case = Json::obj().set("kind", Json::s("raw matrix")).set("rows", Json::us(r)).set("cols", Json::us(c));
            }
            "huge" => {
                let mut r2 = rng.clone();
                let c = self.huge_case(&mut rng, matches!(tier, Tier::Thorough), &mut out);
                out.sig = hash_u64s(&[0x4095, r2.next_u64()]);
                out.nontrivial = true;
                out.case = c;
            }
            _ => {
                let mut r2 = rng.clone();
                let c = self.set_case(&mut rng, &mut out);
                out.sig = hash_u64s(&[0x5e7, r2.next_u64()]);
                out.nontrivial = true;
                out.case = c;
            }
        }
        // TryFrom<&str> dispatch of the combiner names
        for (comb, name) in COMBINERS {
            for n in [name.to_string(), name.to_uppercase()] {
                out.check(StandardCombiner::try_from(n.as_str()).ok() == Some(comb), "C05", "combiner_by_name", || format!("StandardCombiner::try_from({n:?}) is not {name}"));
            }
        }
        out
    }
}
