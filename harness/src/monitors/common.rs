//! Shared pieces of the state-vs-model monitors.

use crate::drive::{self, Built, OrderMode};
use crate::facts::FactSet;
use crate::gen::{GenCfg, IdMode, NameMode, Shape, ALL_ID_MODES, ALL_SHAPES};
use crate::jax::{jax_view, JaxOpts};
use crate::json::Json;
use crate::model::Model;
use crate::observe::{self, Diff, Obs};
use crate::rng::Rng;
use crate::runner::{CaseOut, Tier};
use hpo::Ontology;

#[derive(Clone, Copy, Debug, PartialEq, Eq)]
pub enum PathKind {
    BuilderMinimal,
    BuilderDefaults,
    BytesV1,
    BytesV2,
    BytesV3,
    Jax,
    JaxTransitive,
    RoundTrip,
}

pub const ALL_PATHS: [PathKind; 8] = [
    PathKind::BuilderMinimal,
    PathKind::BuilderDefaults,
    PathKind::BytesV1,
    PathKind::BytesV2,
    PathKind::BytesV3,
    PathKind::Jax,
    PathKind::JaxTransitive,
    PathKind::RoundTrip,
];

impl PathKind {
    pub fn name(self) -> &'static str {
        match self {
            PathKind::BuilderMinimal => "builder_minimal",
            PathKind::BuilderDefaults => "builder_defaults",
            PathKind::BytesV1 => "bytes_v1",
            PathKind::BytesV2 => "bytes_v2",
            PathKind::BytesV3 => "bytes_v3",
            PathKind::Jax => "jax",
            PathKind::JaxTransitive => "jax_transitive",
            PathKind::RoundTrip => "as_bytes_roundtrip",
        }
    }
    pub fn needs_defaults(self) -> bool {
        !matches!(self, PathKind::BuilderMinimal)
    }
    pub fn has_defaults(self) -> bool {
        self.needs_defaults()
    }
    /// can this path carry obsolete flags / replacements
    pub fn carries_flags(self) -> bool {
        matches!(
            self,
            PathKind::BytesV2 | PathKind::BytesV3 | PathKind::Jax | PathKind::JaxTransitive | PathKind::RoundTrip
        )
    }
}

/// The facts as the given path can express them (what the result must describe)
pub fn view_for(f: &FactSet, path: PathKind) -> FactSet {
    match path {
        PathKind::BuilderMinimal | PathKind::BuilderDefaults => f.builder_view(),
        PathKind::BytesV1 => f.binary_view(1),
        PathKind::BytesV2 => f.binary_view(2),
        PathKind::BytesV3 | PathKind::RoundTrip => f.clone(),
        PathKind::Jax | PathKind::JaxTransitive => jax_view(f),
    }
}

/// Make a FactSet acceptable for the text formats (no empty names, no tabs/newlines – generators
/// never produce the latter)
pub fn jaxable(f: &mut FactSet) {
    let clean = |s: &str| -> String {
        s.chars().map(|c| if c == '\t' || c == '\n' || c == '\r' || c == '\u{0}' { '_' } else { c }).collect::<String>().trim().to_string()
    };
    for t in &mut f.terms {
        t.name = clean(&t.name);
        // an empty name is a name ("name: " followed by the line break); every second one is kept
        if t.name.is_empty() && t.id % 2 == 0 {
            t.name = format!("unnamed {}", t.id);
        }
    }
    for k in 0..3 {
        for r in &mut f.recs[k] {
            // empty gene symbols / disease names are legal in the text formats (kept as they are)
            r.name = clean(&r.name);
        }
    }
    // the obo header carries the version as YYYY-MM-DD
    f.version = (f.version.0 % 10_000, f.version.1 % 100, f.version.2 % 100);
    // a quarter of the fact sets carries no release version: half of those are rendered as an obo
    // file without any header block (the file starts with its first stanza)
    let h = f.content_hash();
    if h % 4 == 0 {
        f.version = (0, 0, 0);
    }
    // blanks at the ends of a name belong to the name: hp.obo keeps everything after "name: ", the
    // disease name is a middle column of phenotype.hpoa (gene symbols stay as they are: the symbol is
    // the last column of some gene files). A third of the fact sets decorates a quarter of its names.
    if h % 3 == 1 {
        let deco = |s: &str, id: u32| -> String {
            match (id / 4) % 6 {
                0 => format!(" {s}"),
                1 => format!("{s} "),
                2 => format!("  {s}  "),
                3 => format!("\u{a0}{s}\u{3000}"),
                4 => format!("{s}\u{2003}"),
                _ => format!(" {s}\u{a0} "),
            }
        };
        for t in &mut f.terms {
            if t.id % 4 == 1 && t.id != 1 && !t.name.is_empty() {
                t.name = deco(&t.name, t.id);
            }
        }
        for k in 1..3 {
            for r in &mut f.recs[k] {
                if r.id % 4 == 2 && !r.name.is_empty() {
                    r.name = deco(&r.name, r.id);
                }
            }
        }
    }
}

pub fn construct(f: &FactSet, path: PathKind, rng: &mut Rng, tag: &str) -> Built {
    match path {
        PathKind::BuilderMinimal => drive::via_builder_opts(f, Some(rng), false, true),
        PathKind::BuilderDefaults => drive::via_builder_opts(f, Some(rng), true, true),
        PathKind::BytesV1 => drive::via_bytes_variant(f, 1, rng).1,
        PathKind::BytesV2 => drive::via_bytes_variant(f, 2, rng).1,
        PathKind::BytesV3 => drive::via_bytes_variant(f, 3, rng).1,
        PathKind::Jax | PathKind::JaxTransitive => {
            let o = JaxOpts {
                shuffle: true,
                noise: rng.chance(2, 3),
                gene_header_style: rng.below(3) as u8,
            };
            drive::via_jax(f, rng, &o, path == PathKind::JaxTransitive, tag)
        }
        PathKind::RoundTrip => {
            let first = drive::via_bytes_variant(f, 3, rng).1?;
            match drive::as_bytes(&first) {
                Ok(b) => drive::from_bytes(&b),
                Err(p) => Err(drive::BuildFail::Panic(p)),
            }
        }
    }
}

pub struct StateCase {
    pub facts: FactSet,
    pub view: FactSet,
    pub path: PathKind,
    pub order: OrderMode,
    pub shape: String,
    pub id_mode: String,
}

/// Derive generator settings from a label: "cat:<shape idx>:<idmode idx>:<path idx>" or "rnd:<i>"
pub fn state_case_from_label(
    label: &str,
    rng: &mut Rng,
    tier: Tier,
    flags: bool,
    max_paths: Option<u64>,
) -> StateCase {
    let parts: Vec<&str> = label.split(':').collect();
    let (shape, id_mode, path, big): (Option<Shape>, Option<IdMode>, PathKind, bool) = if parts[0] == "cat" {
        let s: usize = parts[1].parse().unwrap();
        let i: usize = parts[2].parse().unwrap();
        let p: usize = parts[3].parse().unwrap();
        (
            Some(ALL_SHAPES[s % ALL_SHAPES.len()]),
            Some(ALL_ID_MODES[i % ALL_ID_MODES.len()]),
            ALL_PATHS[p % ALL_PATHS.len()],
            false,
        )
    } else {
        let i: u64 = parts[1].parse().unwrap();
        (None, None, ALL_PATHS[(i % ALL_PATHS.len() as u64) as usize], parts[0] == "big")
    };
    let n_max = if big {
        rng.urange(120, 400)
    } else if rng.chance(1, 5) {
        tier.pick(60, 90)
    } else {
        rng.urange(3, 36)
    };
    let cfg = GenCfg {
        n_min: if big { 100 } else { 1 },
        n_max,
        defaults: path.needs_defaults(),
        shape,
        id_mode,
        flags: flags && path.carries_flags(),
        annotations: true,
        max_paths,
        names: NameMode::Mixed,
        max_recs: if big { 40 } else { 8 },
        empty_recs: true,
        allow_zero_id: true,
        dangling_replacement: true,
    };
    let mut facts = crate::gen::gen_facts(rng, &cfg);
    if matches!(path, PathKind::Jax | PathKind::JaxTransitive) {
        jaxable(&mut facts);
    }
    let order = match rng.below(6) {
        0 => OrderMode::AsGiven,
        1 => OrderMode::ReverseTopo,
        2 => OrderMode::AncestorFirst,
        3 => OrderMode::DescendantFirst,
        _ => OrderMode::Shuffled,
    };
    let facts = drive::permute(&facts, order, rng);
    let view = view_for(&facts, path);
    StateCase {
        view,
        path,
        order,
        shape: shape.map_or("random".to_string(), |s| format!("{s:?}")),
        id_mode: id_mode.map_or("random".to_string(), |s| format!("{s:?}")),
        facts,
    }
}

pub fn catalogue_labels() -> Vec<String> {
    let mut v = Vec::new();
    let mut p = 0usize;
    for s in 0..ALL_SHAPES.len() {
        for i in 0..ALL_ID_MODES.len() {
            v.push(format!("cat:{s}:{i}:{p}"));
            p += 1;
        }
    }
    v
}

pub fn case_json(sc: &StateCase) -> Json {
    Json::obj()
        .set("path", Json::s(sc.path.name()))
        .set("order", Json::s(format!("{:?}", sc.order)))
        .set("shape", Json::s(sc.shape.as_str()))
        .set("id_mode", Json::s(sc.id_mode.as_str()))
        .set("facts", sc.facts.to_json())
}

/// Walk the ontology and diff against the model of `view`. Returns (model, observed, diffs).
pub fn walk_and_diff(
    view: &FactSet,
    defaults: bool,
    ont: &Ontology,
    out: &mut CaseOut,
) -> (Model, Obs, Vec<Diff>) {
    let model = Model::new(view, defaults);
    let expected = model.expected_obs(view, &view.version_string());
    let ids: Vec<u32> = view.terms.iter().map(|t| t.id).collect();
    let observed = observe::walk(ont, &ids, &mut out.events);
    let mut diffs = Vec::new();
    observe::diff(&expected, &observed, &mut diffs, &mut out.comparisons);
    (model, observed, diffs)
}

/// Classify a case into model-side buckets shared by the state monitors
pub fn structural_buckets(m: &Model, out: &mut CaseOut) {
    let max_anc = m.anc.values().map(std::collections::BTreeSet::len).max().unwrap_or(0);
    if max_anc > 30 {
        out.bucket("term_with_more_than_30_ancestors");
    }
    if max_anc > 60 {
        out.bucket("term_with_more_than_60_ancestors");
    }
    let max_par = m.parents.values().map(std::collections::BTreeSet::len).max().unwrap_or(0);
    if max_par > 10 {
        out.bucket("term_with_more_than_10_parents");
    }
    if max_par > 30 {
        out.bucket("term_with_more_than_30_parents");
    }
    if max_par >= 2 {
        out.bucket("multi_parent");
    }
    let roots = m.parents.values().filter(|p| p.is_empty()).count();
    if roots > 1 {
        out.bucket("several_roots");
    }
    if m
        .ids
        .iter()
        .any(|t| m.parents[t].is_empty() && m.children[t].is_empty())
        && m.ids.len() > 1
    {
        out.bucket("disconnected_singleton");
    }
    // redundant edge: a direct parent that is also an ancestor of another direct parent
    if m.ids.iter().any(|t| {
        m.parents[t]
            .iter()
            .any(|p| m.parents[t].iter().any(|q| q != p && m.anc[q].contains(p)))
    }) {
        out.bucket("redundant_edge");
    }
    // children numerically below a parent
    if m.ids.iter().any(|t| m.parents[t].iter().any(|p| p > t)) {
        out.bucket("child_id_below_parent_id");
    }
}

pub fn site_str(d: &Diff) -> &str {
    d.site.as_str()
}

pub const SHIPPED_FILES: [&str; 4] = ["example.hpo", "ontology.hpo", "example_v1.hpo", "example_v2.hpo"];

/// Decode one of the binary files shipped in /repo/tests with the harness' independent decoder.
/// Returns (format version, facts as the file describes them, raw bytes).
pub fn shipped_facts(name: &str) -> Result<(u8, FactSet, Vec<u8>), String> {
    let repo = std::env::var("VERIF_REPO").unwrap_or_else(|_| "/repo".to_string());
    let path = format!("{repo}/tests/{name}");
    let bytes = std::fs::read(&path).map_err(|e| format!("cannot read {path}: {e}"))?;
    let (v, facts) = crate::codec::decode(&bytes)?;
    Ok((v, facts.binary_view(v), bytes))
}
