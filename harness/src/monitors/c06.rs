//! C06: hypergeometric enrichment. Every enrichment call is logged as an event
//! (kind, N, K, n, k, p, fold); oracle layer (i) is an in-process f64 pmf recurrence,
//! layer (ii) an exact-rational Python checker over the recorded event log.

use crate::facts::{FactSet, RecFact, TermFact, KIND_NAMES};
use crate::json::Json;
use crate::model::Model;
use crate::observe::{bump, guard};
use crate::rng::{hash_u64s, Rng};
use crate::runner::{CaseOut, Monitor, Tier, Violation};
use hpo::annotations::AnnotationId;
use hpo::stats::hypergeom::{gene_enrichment, omim_disease_enrichment, orpha_disease_enrichment};
use hpo::{HpoTerm, Ontology};
use std::collections::{BTreeMap, BTreeSet};
use std::io::Write;
use std::sync::Mutex;

pub struct C06 {
    pub log: Mutex<Option<std::fs::File>>,
}

impl C06 {
    pub fn new() -> Self {
        C06 { log: Mutex::new(None) }
    }
}

fn events_path(root: &str) -> String {
    format!("{root}/work/C06.events.{}.jsonl", std::process::id())
}

/// P[X >= k] for X ~ Hypergeom(N, K, n) by the multiplicative pmf recurrence in log space,
/// normalised by the full sum (no log-gamma, no factorial table).
pub fn tail_model(nn: u64, kk: u64, n: u64, k: u64) -> f64 {
    let lo = (n + kk).saturating_sub(nn);
    let hi = kk.min(n);
    if k <= lo {
        return 1.0;
    }
    if k > hi {
        return 0.0;
    }
    // log weights relative to pmf(lo)
    let mut lw: Vec<f64> = Vec::with_capacity((hi - lo + 1) as usize);
    lw.push(0.0);
    for i in lo..hi {
        // pmf(i+1)/pmf(i) = (K-i)(n-i) / ((i+1)(N-K-n+i+1))
        let num = ((kk - i) as f64) * ((n - i) as f64);
        let den = ((i + 1) as f64) * ((nn - kk + i + 1 - n) as f64);
        let last = *lw.last().unwrap();
        lw.push(last + (num / den).ln());
    }
    let mx = lw.iter().copied().fold(f64::NEG_INFINITY, f64::max);
    let total: f64 = lw.iter().map(|x| (x - mx).exp()).sum();
    let tail: f64 = lw[(k - lo) as usize..].iter().map(|x| (x - mx).exp()).sum();
    tail / total
}

struct Setup {
    facts: FactSet,
    ont: Ontology,
    model: Model,
}

fn build(facts: FactSet) -> Result<Setup, String> {
    // obsolete flags can only be carried by the binary / text paths
    let ont = if facts.terms.iter().any(|t| t.obsolete) {
        crate::drive::via_bytes(&facts, 3).1.map_err(|e| e.to_string())?
    } else {
        crate::drive::via_builder(&facts, None, false).map_err(|e| e.to_string())?
    };
    let model = Model::new(&facts, false);
    Ok(Setup { facts, ont, model })
}

/// N terms with ids 1..=N (shuffled mapping irrelevant here), optional shallow nesting
fn gen_setup(rng: &mut Rng, n_terms: usize, nested: bool, max_recs: usize) -> FactSet {
    let mut f = FactSet::default();
    for i in 0..n_terms {
        let id = (i + 1) as u32;
        f.terms.push(TermFact { id, name: format!("t{id}"), obsolete: false, replaced_by: None });
        if nested && i > 0 && rng.chance(2, 3) {
            // shallow: parents among the first few terms
            let p = rng.usize_below(i.min(6)) as u32 + 1;
            f.edges.push((id, p));
        }
    }
    for k in 0..3 {
        let cnt = rng.urange(1, max_recs);
        for r in 0..cnt {
            let kk = match rng.below(5) {
                0 => 1,
                1 => n_terms,
                2 => rng.urange(1, n_terms.min(4)),
                _ => rng.urange(1, n_terms),
            };
            let terms: Vec<u32> = rng.sample_indices(n_terms, kk).iter().map(|i| (*i + 1) as u32).collect();
            // ids: small numbers that overlap across kinds; 0 and u32::MAX are ordinary record ids
            let id = match (r, rng.below(6)) {
                (0, 0) => 0,
                (0, 1) => u32::MAX,
                _ => (r + 1) as u32 * 3 + k as u32,
            };
            f.recs[k].push(RecFact { id, name: format!("{}-{r}", KIND_NAMES[k]), terms });
        }
    }
    f
}

impl C06 {
    /// run the three enrichment functions on (background, sample) and check every result
    fn check_call(&self, s: &Setup, background: &[u32], sample: &[u32], out: &mut CaseOut, pvals: &mut BTreeMap<(usize, u32, u64, u64, u64), Vec<(u64, f64)>>) {
        let bg: Vec<HpoTerm> = background.iter().map(|t| s.ont.hpo(*t).expect("term")).collect();
        let sm: Vec<HpoTerm> = sample.iter().map(|t| s.ont.hpo(*t).expect("term")).collect();
        let nn = background.len() as u64;
        let n = sample.len() as u64;
        for kind in 0..3 {
            bump(&mut out.events, ["gene_enrichment", "omim_disease_enrichment", "orpha_disease_enrichment"][kind]);
            let res: Result<Vec<(u32, u64, f64, f64)>, _> = guard(|| match kind {
                0 => gene_enrichment(bg.clone(), sm.clone()).iter().map(|e| (e.id().as_u32(), e.count(), e.pvalue(), e.enrichment())).collect(),
                1 => omim_disease_enrichment(bg.clone(), sm.clone()).iter().map(|e| (e.id().as_u32(), e.count(), e.pvalue(), e.enrichment())).collect(),
                _ => orpha_disease_enrichment(bg.clone(), sm.clone()).iter().map(|e| (e.id().as_u32(), e.count(), e.pvalue(), e.enrichment())).collect(),
            });
            let kn = KIND_NAMES[kind];
            // the same call with the other documented argument forms (&Ontology as background when it is
            // the whole ontology, &HpoSet as sample): must give the same records
            {
                let set = hpo::HpoSet::new(&s.ont, hpo::term::HpoGroup::from(sample.to_vec()));
                let whole = background.len() == s.ont.len();
                let alt: Result<Vec<(u32, u64, f64, f64)>, _> = guard(|| match (kind, whole) {
                    (0, true) => gene_enrichment(&s.ont, &set).iter().map(|e| (e.id().as_u32(), e.count(), e.pvalue(), e.enrichment())).collect(),
                    (1, true) => omim_disease_enrichment(&s.ont, &set).iter().map(|e| (e.id().as_u32(), e.count(), e.pvalue(), e.enrichment())).collect(),
                    (2, true) => orpha_disease_enrichment(&s.ont, &set).iter().map(|e| (e.id().as_u32(), e.count(), e.pvalue(), e.enrichment())).collect(),
                    (0, false) => gene_enrichment(bg.clone(), &set).iter().map(|e| (e.id().as_u32(), e.count(), e.pvalue(), e.enrichment())).collect(),
                    (1, false) => omim_disease_enrichment(bg.clone(), &set).iter().map(|e| (e.id().as_u32(), e.count(), e.pvalue(), e.enrichment())).collect(),
                    _ => orpha_disease_enrichment(bg.clone(), &set).iter().map(|e| (e.id().as_u32(), e.count(), e.pvalue(), e.enrichment())).collect(),
                });
                bump(&mut out.events, "enrichment(&Ontology|&HpoSet)");
                if let (Ok(a), Ok(b)) = (&alt, &res) {
                    let mut a = a.clone();
                    let mut b = b.clone();
                    a.sort_by(|x, y| x.0.cmp(&y.0));
                    b.sort_by(|x, y| x.0.cmp(&y.0));
                    let same = a.len() == b.len() && a.iter().zip(b.iter()).all(|(x, y)| x.0 == y.0 && x.1 == y.1 && x.2.to_bits() == y.2.to_bits() && x.3.to_bits() == y.3.to_bits());
                    out.check(same, "C06", &format!("argument_form_changes_result/{kn}"), || format!("enrichment with (&Ontology|Vec, &HpoSet) differs from (Vec, Vec) for N={nn} n={n}: {:?} vs {:?}", a.iter().zip(b.iter()).find(|(x, y)| x != y), (a.len(), b.len())));
                    if whole {
                        out.bucket("call_form/ontology_and_set");
                    }
                } else if let Err(p) = &alt {
                    out.violate("C06", &format!("panic:enrichment_alt_form/{kn}"), format!("N={nn} n={n}: {} at {}", p.message, p.location));
                }
            }
            // ... and with iterator adaptors whose size_hint is not exact (a filtered superset): the
            // collections are what the iterators yield, not what they announce
            {
                let junk: Vec<HpoTerm> = bg.iter().take(3).copied().collect();
                let in_bg: BTreeSet<u32> = background.iter().copied().collect();
                let in_sm: BTreeSet<u32> = sample.iter().copied().collect();
                let mut bg_super: Vec<HpoTerm> = bg.clone();
                let mut sm_super: Vec<HpoTerm> = sm.clone();
                // terms of the ontology outside the collection, filtered out again by the adaptor
                for t in s.ont.hpos() {
                    if bg_super.len() < bg.len() + 5 && !in_bg.contains(&t.id().as_u32()) {
                        bg_super.push(t);
                    }
                    if sm_super.len() < sm.len() + 5 && !in_sm.contains(&t.id().as_u32()) {
                        sm_super.push(t);
                    }
                }
                let alt: Result<Vec<(u32, u64, f64, f64)>, _> = guard(|| {
                    let b = bg_super.iter().copied().filter(|t| in_bg.contains(&t.id().as_u32())).chain(junk.clone().into_iter().filter(|_| false));
                    let m = sm_super.iter().copied().filter(|t| in_sm.contains(&t.id().as_u32())).chain(junk.clone().into_iter().skip_while(|_| true));
                    match kind {
                        0 => gene_enrichment(b, m).iter().map(|e| (e.id().as_u32(), e.count(), e.pvalue(), e.enrichment())).collect(),
                        1 => omim_disease_enrichment(b, m).iter().map(|e| (e.id().as_u32(), e.count(), e.pvalue(), e.enrichment())).collect(),
                        _ => orpha_disease_enrichment(b, m).iter().map(|e| (e.id().as_u32(), e.count(), e.pvalue(), e.enrichment())).collect(),
                    }
                });
                bump(&mut out.events, "enrichment(filtered iterators)");
                out.bucket("call_form/inexact_size_hint");
                if let (Ok(a), Ok(b)) = (&alt, &res) {
                    let mut a = a.clone();
                    let mut b = b.clone();
                    a.sort_by(|x, y| x.0.cmp(&y.0));
                    b.sort_by(|x, y| x.0.cmp(&y.0));
                    let same = a.len() == b.len() && a.iter().zip(b.iter()).all(|(x, y)| x.0 == y.0 && x.1 == y.1 && x.2.to_bits() == y.2.to_bits() && x.3.to_bits() == y.3.to_bits());
                    out.check(same, "C06", &format!("argument_form_changes_result/{kn}"), || format!("enrichment with filtered iterators (inexact size_hint) differs from (Vec, Vec) for N={nn} n={n}"));
                } else if let Err(p) = &alt {
                    out.violate("C06", &format!("panic:enrichment_alt_form/{kn}"), format!("filtered iterators, N={nn} n={n}: {} at {}", p.message, p.location));
                }
            }
            let res = match res {
                Ok(r) => r,
                Err(p) => {
                    out.violate("C06", &format!("panic:enrichment/{kn}"), format!("N={nn} n={n}: {} at {}", p.message, p.location));
                    continue;
                }
            };
            // expected: one record per annotation linked to >= 1 sample term
            let mut exp: BTreeMap<u32, (u64, u64)> = BTreeMap::new(); // rec -> (K, k)
            for r in s.model.direct[kind].keys() {
                let kk = background.iter().filter(|t| s.model.links[kind][t].contains(r)).count() as u64;
                let k = sample.iter().filter(|t| s.model.links[kind][t].contains(r)).count() as u64;
                if k > 0 {
                    exp.insert(*r, (kk, k));
                }
            }
            let got_ids: Vec<u32> = res.iter().map(|r| r.0).collect();
            let got_set: BTreeSet<u32> = got_ids.iter().copied().collect();
            out.check(got_ids.len() == got_set.len(), "C06", &format!("duplicate_record/{kn}"), || format!("result lists a record twice: {got_ids:?}"));
            let exp_set: BTreeSet<u32> = exp.keys().copied().collect();
            out.check(got_set == exp_set, "C06", &format!("result_set/{kn}"), || {
                format!("records in result {got_set:?}, records linked to >=1 sample term {exp_set:?} (N={nn}, n={n})")
            });
            for (id, count, p, fold) in res {
                let Some((kk, k)) = exp.get(&id).copied() else { continue };
                out.bucket("tuples");
                if nn > 170 {
                    out.bucket("population_above_factorial_table");
                } else {
                    out.bucket("population_within_factorial_table");
                }
                if let Some(f) = self.log.lock().unwrap().as_mut() {
                    let _ = writeln!(f, "{{\"kind\":\"{kn}\",\"N\":{nn},\"K\":{kk},\"n\":{n},\"k\":{k},\"count\":{count},\"p\":{p:e},\"fold\":{fold:e}}}");
                }
                out.check(count == k, "C06", &format!("count/{kn}"), || format!("record {id}: count {count}, linked sample terms {k}"));
                let ep = tail_model(nn, kk, n, k);
                let tol = 1e-8 * ep.abs() + 1e-300;
                out.check(p.is_finite() && (p - ep).abs() <= tol, "C06", &format!("pvalue/{kn}"), || {
                    format!("record {id}: p = {p:e}, P[X>={k}] for Hypergeom(N={nn},K={kk},n={n}) = {ep:e}")
                });
                out.check(p >= 0.0 && p <= 1.0 + 1e-9, "C06", &format!("pvalue_range/{kn}"), || format!("p = {p:e} outside [0,1] for (N={nn},K={kk},n={n},k={k})"));
                let ef = (k as f64 / n as f64) / (kk as f64 / nn as f64);
                out.check(fold.is_finite() && (fold - ef).abs() <= 1e-9 * ef.abs(), "C06", &format!("fold/{kn}"), || {
                    format!("record {id}: fold {fold}, (k/n)/(K/N) = {ef} for (N={nn},K={kk},n={n},k={k})")
                });
                pvals.entry((kind, id, nn, kk, n)).or_default().push((k, p));
            }
        }
    }

    fn check_monotone(pvals: &BTreeMap<(usize, u32, u64, u64, u64), Vec<(u64, f64)>>, out: &mut CaseOut) {
        for ((kind, id, nn, kk, n), v) in pvals {
            let mut v = v.clone();
            v.sort_by(|a, b| a.0.cmp(&b.0));
            for w in v.windows(2) {
                if w[0].0 == w[1].0 {
                    continue;
                }
                out.bucket("monotonicity_pairs");
                out.check(w[1].1 <= w[0].1 * (1.0 + 1e-9) + 1e-300, "C06", &format!("pvalue_increases_with_k/{}", KIND_NAMES[*kind]), || {
                    format!("record {id} (N={nn},K={kk},n={n}): p(k={}) = {:e} < p(k={}) = {:e}", w[0].0, w[0].1, w[1].0, w[1].1)
                });
            }
        }
    }
}

impl Monitor for C06 {
    fn id(&self) -> &'static str {
        "C06"
    }
    fn rule(&self) -> String {
        "A case = one ontology of N terms (flat or shallowly nested; N from 2 to 1500 with catalogue cases at 169,170,171,172,340,341), records of the three kinds annotated to chosen term subsets, and several (background, sample) pairs: whole ontology or proper sub-collection as background, samples with chosen n and k, and families of equal-size samples with k = 1..min(K,n) for one record. \
         Every record returned by gene/omim/orpha enrichment is one logged tuple (kind,N,K,n,k,count,p,fold) and is checked online against the f64 pmf recurrence and offline by oracles/hypergeom_exact.py with exact integers. The (N,K,n,k) lattice is enumerated completely for N <= 12 (quick) / N <= 24 (thorough). \
         Distinct = distinct hash of (facts, samples); non-trivial = at least one returned record."
            .into()
    }
    fn assumptions(&self) -> Vec<String> {
        vec![
            "samples are subsets of the background and contain no duplicates (otherwise the library documents a panic)".into(),
            "p-values compared at 1e-8 relative (online) and 1e-9 relative by the exact checker; range and monotonicity with 1e-9 slack".into(),
        ]
    }
    fn plan(&self, tier: Tier) -> Vec<String> {
        let mut v = Vec::new();
        for n in [169, 170, 171, 172, 340, 341, 2, 3, 1500] {
            v.push(format!("pop:{n}"));
        }
        v.push("huge:0".to_string());
        for i in 0..tier.pick(6, 60) {
            v.push(format!("deep:{i}"));
        }
        for n in 2..=tier.pick(12, 24) {
            v.push(format!("lat:{n}"));
        }
        for i in 0..tier.pick(12, 400) {
            v.push(format!("mono:{i}"));
        }
        for i in 0..tier.pick(500, 20_000) {
            v.push(format!("rnd:{i}"));
        }
        v
    }
    fn mandatory_buckets(&self, _tier: Tier) -> Vec<String> {
        ["tuples", "background_above_65536_terms", "ontology_with_obsolete_terms", "population_above_factorial_table", "population_within_factorial_table", "monotonicity_pairs", "background/whole", "background/subcollection", "call_form/ontology_and_set", "call_form/inexact_size_hint", "deep_lower_tail_and_long_tails", "lattice_points"]
            .iter()
            .map(|s| (*s).to_string())
            .collect()
    }
    fn pre_run(&self, _tier: Tier, _seed: u64, root: &str) {
        let _ = std::fs::create_dir_all(format!("{root}/work"));
        if let Ok(f) = std::fs::File::create(events_path(root)) {
            *self.log.lock().unwrap() = Some(f);
        }
    }
    fn post_run(&self, tier: Tier, _seed: u64, root: &str) -> (Vec<Violation>, Vec<(String, Json)>, Option<String>) {
        let path = events_path(root);
        if let Some(f) = self.log.lock().unwrap().take() {
            drop(f);
        }
        let cap = tier.pick(4000, 400_000).to_string();
        let script = format!("{root}/oracles/hypergeom_exact.py");
        let outp = std::process::Command::new("python3").args([&script, &path, &cap]).output();
        let _ = std::fs::remove_file(&path);
        match outp {
            Err(e) => (vec![], vec![], Some(format!("exact checker could not be started: {e}"))),
            Ok(o) => {
                let text = String::from_utf8_lossy(&o.stdout).to_string();
                let mut viol = Vec::new();
                let mut cov = Vec::new();
                let mut ok = false;
                for line in text.lines() {
                    if let Some(rest) = line.strip_prefix("MISMATCH ") {
                        let (site, detail) = rest.split_once(' ').unwrap_or((rest, ""));
                        viol.push(Violation { signature: format!("C06/exact/{site}"), detail: detail.to_string() });
                    } else if let Some(rest) = line.strip_prefix("SUMMARY ") {
                        ok = true;
                        if let Ok(j) = Json::parse(rest) {
                            cov.push(("exact_checker".to_string(), j));
                        }
                    }
                }
                if !ok {
                    return (viol, cov, Some(format!("exact checker produced no summary (exit {:?}): {}", o.status.code(), String::from_utf8_lossy(&o.stderr))));
                }
                (viol, cov, None)
            }
        }
    }
    fn extra_coverage(&self, tier: Tier, b: &BTreeMap<String, u64>) -> Vec<(String, Json)> {
        vec![(
            "exhaustive_subspace".into(),
            Json::s(format!(
                "(N,K,n,k) lattice enumerated completely for N <= {}: {} lattice points",
                tier.pick(12, 24),
                b.get("lattice_points").copied().unwrap_or(0)
            )),
        )]
    }

    fn run_case(&self, label: &str, seed: u64, _tier: Tier) -> CaseOut {
        let mut out = CaseOut::new();
        let mut rng = Rng::for_case(seed, "C06", label);
        let parts: Vec<&str> = label.split(':').collect();
        let idx: usize = parts[1].parse().unwrap();
        let mut pvals = BTreeMap::new();
        let mut samples_desc: Vec<Json> = Vec::new();
        match parts[0] {
            "lat" => {
                // N = idx terms, gene K annotated to terms 1..=K; other kinds shifted so leaks are visible
                let n_terms = idx;
                let mut f = FactSet::default();
                for i in 1..=n_terms as u32 {
                    f.terms.push(TermFact { id: i, name: format!("t{i}"), obsolete: false, replaced_by: None });
                }
                for kk in 1..=n_terms as u32 {
                    f.recs[0].push(RecFact { id: kk, name: format!("g{kk}"), terms: (1..=kk).collect() });
                    f.recs[1].push(RecFact { id: kk, name: format!("o{kk}"), terms: (n_terms as u32 - kk + 1..=n_terms as u32).collect() });
                    if kk % 2 == 0 {
                        f.recs[2].push(RecFact { id: kk, name: format!("p{kk}"), terms: (1..=n_terms as u32).filter(|t| t % kk == 0).collect() });
                    }
                }
                let s = match build(f) {
                    Ok(s) => s,
                    Err(e) => {
                        out.violate("C06", "construct_failed", e);
                        return out;
                    }
                };
                let all: Vec<u32> = (1..=n_terms as u32).collect();
                for kk in 1..=n_terms {
                    for n in 1..=n_terms {
                        let lo = (n + kk).saturating_sub(n_terms).max(1);
                        for k in lo..=kk.min(n) {
                            // sample with exactly k of the first K terms and n-k of the others
                            let mut sample: Vec<u32> = (1..=k as u32).collect();
                            sample.extend((kk as u32 + 1)..=(kk + n - k) as u32);
                            self.check_call(&s, &all, &sample, &mut out, &mut pvals);
                            out.bucket("lattice_points");
                        }
                    }
                }
                out.bucket("background/whole");
                out.sig = hash_u64s(&[0x1a7, idx as u64]);
                out.case = Json::obj().set("kind", Json::s("complete (K,n,k) lattice")).set("N", Json::us(n_terms));
            }
            "huge" => {
                // a background far beyond the complete HPO: N = 100 000 terms, K = n = 50 000, k = 45 000
                // (products like k*N exceed 2^32)
                let n_terms = 100_000usize;
                let mut f = FactSet::default();
                for i in 1..=n_terms as u32 {
                    f.terms.push(TermFact { id: i, name: String::new(), obsolete: false, replaced_by: None });
                }
                for k in 0..3 {
                    f.recs[k].push(RecFact { id: 7 + k as u32, name: format!("big{k}"), terms: (1..=50_000u32).collect() });
                    f.recs[k].push(RecFact { id: 70 + k as u32, name: format!("small{k}"), terms: (49_990..=50_010u32).collect() });
                }
                let s = match build(f) {
                    Ok(s) => s,
                    Err(e) => {
                        out.violate("C06", "construct_failed", e);
                        return out;
                    }
                };
                let all: Vec<u32> = (1..=n_terms as u32).collect();
                let mut sample: Vec<u32> = (1..=45_000u32).collect();
                sample.extend(50_001..=55_000u32);
                self.check_call(&s, &all, &sample, &mut out, &mut pvals);
                out.bucket("background_above_65536_terms");
                out.bucket("background/whole");
                out.sig = hash_u64s(&[0x4096, 1]);
                out.case = Json::obj().set("kind", Json::s("N=100000 K=50000 n=50000 k=45000 for all three kinds"));
            }
            "deep" => {
                // mid-size populations, frequent annotations, big samples: overlaps from the deep lower
                // tail (p ~ 1, pmf(k) far below the smallest double) over the mean to the maximum; tails
                // of several hundred terms with real mass in the middle
                let n_terms = [1000usize, 3200, 700, 2000, 420, 5000][idx % 6];
                let mut f = FactSet::default();
                for i in 1..=n_terms as u32 {
                    f.terms.push(TermFact { id: i, name: format!("t{i}"), obsolete: false, replaced_by: None });
                }
                let fracs = [0.47, 0.5, 0.31];
                for k in 0..3 {
                    let kk = ((n_terms as f64) * fracs[(k + idx) % 3]) as u32 - rng.range(0, 9) as u32;
                    // record of kind k covers terms 1..=kk
                    f.recs[k].push(RecFact { id: 5 + k as u32, name: format!("frequent{k}"), terms: (1..=kk).collect() });
                    f.recs[k].push(RecFact { id: 50 + k as u32, name: format!("rare{k}"), terms: vec![n_terms as u32] });
                }
                let kind = idx % 3;
                let kk = f.recs[kind][0].terms.len();
                let s = match build(f) {
                    Ok(s) => s,
                    Err(e) => {
                        out.violate("C06", "construct_failed", e);
                        return out;
                    }
                };
                let all: Vec<u32> = (1..=n_terms as u32).collect();
                let others = n_terms - kk;
                let n_hi = ((n_terms as f64 * 0.45) as usize).min(others);
                let n = rng.urange((n_terms as f64 * 0.35) as usize, n_hi);
                let kmin = n.saturating_sub(others).max(1);
                let kmax = kk.min(n);
                let mean = n * kk / n_terms;
                let mut ks: BTreeSet<usize> = BTreeSet::new();
                for k in [kmin, kmin + 1, kmin + 2, kmin + 39, mean / 2, mean.saturating_sub(60), mean.saturating_sub(20), mean, mean + 15, mean + 70, kmax - 1, kmax] {
                    if k >= kmin && k <= kmax {
                        ks.insert(k);
                    }
                }
                for k in &ks {
                    // exactly k of the frequent record's terms and n-k of the others
                    let mut sample: Vec<u32> = (1..=*k as u32).collect();
                    sample.extend((kk as u32 + 1)..(kk as u32 + 1 + (n - k) as u32));
                    // keep the rare record out of the way of the count
                    sample.retain(|t| *t != n_terms as u32);
                    self.check_call(&s, &all, &sample, &mut out, &mut pvals);
                }
                out.bucket("background/whole");
                out.bucket("deep_lower_tail_and_long_tails");
                out.sig = hash_u64s(&[0xdee9, idx as u64, n as u64]);
                out.case = Json::obj()
                    .set("kind", Json::s("deep tails"))
                    .set("N", Json::us(n_terms))
                    .set("K", Json::us(kk))
                    .set("n", Json::us(n))
                    .set("k_values", Json::Arr(ks.iter().map(|k| Json::us(*k)).collect()));
            }
            "mono" | "pop" | "rnd" => {
                let n_terms = match parts[0] {
                    "pop" => idx,
                    "mono" => [20, 60, 171, 200, 340, 500][idx % 6],
                    _ => match rng.below(6) {
                        0 => rng.urange(2, 12),
                        1 => rng.urange(150, 190),
                        2 => rng.urange(171, 600),
                        3 => rng.urange(600, 1500),
                        _ => rng.urange(5, 120),
                    },
                };
                let nested = parts[0] == "rnd" && rng.chance(1, 2);
                let mut f = gen_setup(&mut rng, n_terms, nested, if n_terms > 400 { 4 } else { 8 });
                // a quarter of the random ontologies carry obsolete terms (which are ordinary members of
                // backgrounds and samples); needs HP:1 and HP:118 because it goes through the v3 decoder
                if parts[0] == "rnd" && n_terms >= 118 && rng.chance(1, 2) {
                    for t in &mut f.terms {
                        if t.id != 1 && t.id != 118 && rng.chance(1, 5) {
                            t.obsolete = true;
                        }
                    }
                    out.bucket("ontology_with_obsolete_terms");
                }
                let s = match build(f) {
                    Ok(s) => s,
                    Err(e) => {
                        out.violate("C06", "construct_failed", e);
                        return out;
                    }
                };
                let all: Vec<u32> = (1..=n_terms as u32).collect();
                let n_calls = if n_terms > 400 { 3 } else { 6 };
                for _ in 0..n_calls {
                    // background: whole ontology or a proper sub-collection
                    let background: Vec<u32> = if n_terms > 3 && rng.chance(1, 3) {
                        out.bucket("background/subcollection");
                        let k = rng.urange(2, n_terms - 1);
                        let mut b: Vec<u32> = rng.sample_indices(n_terms, k).iter().map(|i| all[*i]).collect();
                        b.sort_unstable();
                        b
                    } else {
                        out.bucket("background/whole");
                        all.clone()
                    };
                    if parts[0] == "mono" || rng.chance(1, 4) {
                        // family of equal-size samples with k = 1..min(K,n) for one record
                        let kind = rng.usize_below(3);
                        let Some(rec) = s.facts.recs[kind].first() else { continue };
                        let linked: Vec<u32> = background.iter().copied().filter(|t| s.model.links[kind][t].contains(&rec.id)).collect();
                        let others: Vec<u32> = background.iter().copied().filter(|t| !s.model.links[kind][t].contains(&rec.id)).collect();
                        if linked.is_empty() {
                            continue;
                        }
                        let n = rng.urange(1, background.len().min(60));
                        let kmax = linked.len().min(n);
                        let kmin = n.saturating_sub(others.len()).max(1);
                        for k in kmin..=kmax {
                            let mut sample: Vec<u32> = linked[..k].to_vec();
                            sample.extend_from_slice(&others[..n - k]);
                            self.check_call(&s, &background, &sample, &mut out, &mut pvals);
                        }
                        samples_desc.push(Json::obj().set("family_n", Json::us(n)).set("k_range", Json::s(format!("{kmin}..={kmax}"))).set("N", Json::us(background.len())));
                    } else {
                        let n = rng.urange(1, background.len());
                        let mut sample: Vec<u32> = rng.sample_indices(background.len(), n).iter().map(|i| background[*i]).collect();
                        sample.sort_unstable();
                        self.check_call(&s, &background, &sample, &mut out, &mut pvals);
                        samples_desc.push(Json::obj().set("N", Json::us(background.len())).set("n", Json::us(n)));
                    }
                }
                out.sig = hash_u64s(&[s.facts.content_hash(), rng.next_u64()]);
                out.case = Json::obj()
                    .set("n_terms", Json::us(n_terms))
                    .set("nested", Json::Bool(nested))
                    .set("records", Json::Arr((0..3).map(|k| Json::Arr(s.facts.recs[k].iter().map(|r| Json::obj().set("id", Json::u(u64::from(r.id))).set("n_direct_terms", Json::us(r.terms.len()))).collect())).collect()))
                    .set("calls", Json::Arr(samples_desc));
            }
            _ => {}
        }
        Self::check_monotone(&pvals, &mut out);
        out.nontrivial = out.buckets.get("tuples").copied().unwrap_or(0) > 0;
        out
    }
}
