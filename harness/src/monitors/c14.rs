//! C14: sub-ontologies keep shortest leaf-root chains, induced links, phenotype links.
//! Relational oracle: the library may choose any shortest chain.

use super::common::*;
use crate::facts::{FactSet, RecFact, TermFact, KIND_NAMES};
use crate::gen::GenCfg;
use crate::json::Json;
use crate::model::Model;
use crate::observe::{self, bump, guard, PanicInfo};
use crate::rng::{hash_u64s, Rng};
use crate::runner::{CaseOut, Monitor, Tier};
use hpo::{HpoTerm, Ontology};
use std::collections::{BTreeMap, BTreeSet};

pub struct C14;

impl Monitor for C14 {
    fn id(&self) -> &'static str {
        "C14"
    }
    fn rule(&self) -> String {
        "A case = one source ontology (with or without default modifier roots; annotations on phenotype terms, modifier descendants and modifier roots themselves) and ~8 (root, leaves) requests: root in {HP:1, HP:118, a modifier root, inner terms}; leaves single / several / duplicated / equal to root / ancestors of other leaves / outside root's subtree. \
         For each request: Ok iff every leaf is root or a descendant of root; root and leaves retained; every retained term lies on a shortest leaf-root chain (BFS distances of the source); names and flags copied; parent links = source links induced on the retained set; leaf-root distances preserved; a record is kept iff it is directly annotated to a retained non-modifier term and is then linked to exactly direct-terms ∩ retained; the result walked through the whole read API equals the model of its own facts (closure, inheritance, IC). \
         Distinct = (source content, requests) hash; non-trivial = at least one accepted request with >= 3 retained terms."
            .into()
    }
    fn assumptions(&self) -> Vec<String> {
        vec![
            "chain count between two terms capped (path_to_ancestor is not memoised)".into(),
            "the release version of the result is not judged (the statement does not mention it)".into(),
            "'modifier term' = a term that is, or descends from, a modifier root of the SOURCE ontology".into(),
        ]
    }
    fn plan(&self, tier: Tier) -> Vec<String> {
        let mut v: Vec<String> = (0..24).map(|i| format!("cat:{i}")).collect();
        for i in 0..tier.pick(1500, 40_000) {
            v.push(format!("rnd:{i}"));
        }
        v
    }
    fn mandatory_buckets(&self, _tier: Tier) -> Vec<String> {
        [
            "request/accepted",
            "modifier_roots_changed_between_requests",
            "request/leaf_outside_subtree",
            "request/leaf_equals_root",
            "request/duplicate_leaves",
            "request/leaf_is_ancestor_of_other_leaf",
            "request/several_leaves",
            "root/HP1",
            "root/HP118",
            "root/modifier_root",
            "root/inner_term",
            "annotation_on_modifier_root_retained",
            "annotation_on_modifier_descendant_retained",
            "record_dropped",
            "record_kept",
            "several_shortest_chains",
            "source_with_names_over_255_bytes",
        ]
        .iter()
        .map(|s| (*s).to_string())
        .collect()
    }

    #[allow(clippy::too_many_lines)]
    fn run_case(&self, label: &str, seed: u64, tier: Tier) -> CaseOut {
        let mut out = CaseOut::new();
        let mut rng = Rng::for_case(seed, "C14", label);
        let idx: u64 = label.split(':').nth(1).unwrap().parse().unwrap_or(0);
        let defaults = idx % 4 != 3;
        let path = if !defaults {
            PathKind::BuilderMinimal
        } else if idx % 2 == 0 {
            PathKind::BytesV3
        } else {
            PathKind::BuilderDefaults
        };
        let cfg = GenCfg {
            n_min: 4,
            n_max: if rng.chance(1, 8) { tier.pick(50, 90) } else { 26 },
            defaults,
            flags: path.carries_flags(),
            max_paths: Some(tier.pick(200, 1500)),
            dangling_replacement: true,
            ..GenCfg::default()
        };
        let mut facts = crate::gen::gen_facts(&mut rng, &cfg);
        // term names longer than the binary format's 255-byte limit are legal in an ontology built through
        // the Builder and must be copied unchanged
        if path != PathKind::BytesV3 && rng.chance(1, 4) {
            for t in facts.terms.iter_mut().filter(|t| t.id != 1 && t.id != 118) {
                if rng.chance(1, 3) {
                    t.name = format!("{} {}", "long name".repeat(rng.urange(29, 40)), t.id);
                }
            }
            out.bucket("source_with_names_over_255_bytes");
        }
        // names are copied byte for byte: white space at either end, names of blanks only, empty names
        if rng.chance(1, 3) {
            let deco = |rng: &mut Rng, s: &str| -> String {
                match rng.below(6) {
                    0 => format!(" {s}"),
                    1 => format!("{s} "),
                    2 => format!("\t{s}  "),
                    3 => "   ".to_string(),
                    4 => format!("\u{a0}{s}\u{2003}"),
                    _ => String::new(),
                }
            };
            for t in &mut facts.terms {
                if rng.chance(1, 3) {
                    let n = deco(&mut rng, &t.name);
                    if n.len() <= 255 {
                        t.name = n;
                    }
                }
            }
            for k in 0..3 {
                for r in &mut facts.recs[k] {
                    if rng.chance(1, 3) {
                        let n = deco(&mut rng, &r.name);
                        if n.len() <= 255 {
                            r.name = n;
                        }
                    }
                }
            }
            out.bucket("source_with_white_space_at_the_ends_of_names");
        }
        // make sure there are modifier branches with annotations on roots and descendants
        let m0 = Model::new(&facts, defaults);
        if defaults && m0.modifier_roots.is_empty() {
            let id = (200_000 + idx % 1000) as u32;
            if facts.term(id).is_none() {
                facts.terms.push(TermFact { id, name: "extra modifier root".into(), obsolete: false, replaced_by: None });
                facts.edges.push((id, 1));
                let id2 = id + 1;
                facts.terms.push(TermFact { id: id2, name: "extra modifier child".into(), obsolete: false, replaced_by: None });
                facts.edges.push((id2, id));
            }
        }
        let m0 = Model::new(&facts, defaults);
        if defaults {
            let roots: Vec<u32> = m0.modifier_roots.iter().copied().collect();
            for (k, r) in roots.iter().enumerate().take(3) {
                // a record annotated ONLY to a modifier root, one only to a modifier descendant,
                // one to a modifier root and a phenotype term
                let kind = k % 3;
                let base = 900 + (k as u32) * 10;
                facts.recs[kind].push(RecFact { id: base, name: format!("only-modroot-{base}"), terms: vec![*r] });
                let desc: Vec<u32> = m0.desc[r].iter().copied().filter(|d| !m0.anc[d].contains(&118) && *d != 118).collect();
                if let Some(d) = desc.first() {
                    facts.recs[kind].push(RecFact { id: base + 1, name: format!("only-moddesc-{base}"), terms: vec![*d] });
                }
                let phen: Vec<u32> = m0.desc[&118].iter().copied().filter(|t| !m0.is_modifier(*t)).collect();
                if let Some(p) = phen.first() {
                    facts.recs[kind].push(RecFact { id: base + 2, name: format!("modroot-and-phen-{base}"), terms: vec![*r, *p] });
                }
            }
        }
        let view = view_for(&facts, path);
        let src = match construct(&view, path, &mut rng, "c14") {
            Ok(o) => o,
            Err(e) => {
                out.bucket("source_construction_failed");
                out.case = Json::obj().set("source_error", Json::s(e.to_string()));
                return out;
            }
        };
        let m = Model::new(&view, defaults);
        let ids: Vec<u32> = m.ids.iter().copied().collect();
        let up: BTreeMap<u32, BTreeMap<u32, usize>> = ids.iter().map(|t| (*t, m.up_dist(*t))).collect();
        let tf: BTreeMap<u32, &TermFact> = view.terms.iter().map(|t| (t.id, t)).collect();

        // requests
        let mut requests: Vec<(u32, Vec<u32>)> = Vec::new();
        let mut root_cands: Vec<u32> = Vec::new();
        if defaults {
            root_cands.push(1);
            root_cands.push(118);
            root_cands.extend(m.modifier_roots.iter().copied().take(2));
        }
        for _ in 0..4 {
            // inner terms with descendants
            let t = *rng.pick(&ids);
            if !m.desc[&t].is_empty() {
                root_cands.push(t);
            }
        }
        if root_cands.is_empty() {
            root_cands.push(*rng.pick(&ids));
        }
        for root in &root_cands {
            let below: Vec<u32> = m.desc[root].iter().copied().collect();
            let pick_below = |rng: &mut Rng, k: usize| -> Vec<u32> {
                if below.is_empty() {
                    vec![*root]
                } else {
                    (0..k).map(|_| *rng.pick(&below)).collect()
                }
            };
            match rng.below(7) {
                0 => requests.push((*root, vec![*root])),
                1 => requests.push((*root, pick_below(&mut rng, 1))),
                2 => {
                    let mut l = pick_below(&mut rng, 2);
                    l.push(l[0]); // duplicate
                    requests.push((*root, l));
                }
                3 => {
                    // a leaf together with one of its own ancestors below root
                    let l = pick_below(&mut rng, 1);
                    let mut v = l.clone();
                    let between: Vec<u32> = m.anc[&l[0]].iter().copied().filter(|a| m.anc[a].contains(root)).collect();
                    if let Some(a) = between.first() {
                        v.push(*a);
                    }
                    v.push(*root);
                    requests.push((*root, v));
                }
                4 => {
                    // one leaf outside root's subtree
                    let outside: Vec<u32> = ids.iter().copied().filter(|t| t != root && !m.anc[t].contains(root)).collect();
                    let mut l = pick_below(&mut rng, 1);
                    if let Some(o) = outside.first() {
                        l.insert(rng.usize_below(l.len() + 1), *o);
                    }
                    requests.push((*root, l));
                }
                _ => {
                    let k = rng.urange(2, 6);
                    requests.push((*root, pick_below(&mut rng, k)));
                }
            }
        }

        out.sig = hash_u64s(&[view.content_hash(), rng.clone().next_u64()]);
        out.case = Json::obj()
            .set("source_path", Json::s(path.name()))
            .set("facts", view.to_json())
            .set(
                "requests",
                Json::Arr(requests.iter().map(|(r, l)| Json::obj().set("root", Json::u(u64::from(*r))).set("leaves", Json::arr_u32(l))).collect()),
            );

        let mut src = src;
        let mut m = m;
        for phase in 0..2 {
            if phase == 1 {
                // second phase (a third of the cases): the user changes the modifier roots of the SAME source
                // object and asks again; which records are kept follows the roots as they are now
                if !rng.chance(1, 3) {
                    break;
                }
                let new_roots: BTreeSet<u32> = match rng.below(3) {
                    0 => BTreeSet::new(),
                    1 => {
                        let mut r = m.modifier_roots.clone();
                        r.insert(*rng.pick(&ids));
                        r
                    }
                    _ => (0..rng.urange(1, 3)).map(|_| *rng.pick(&ids)).collect(),
                };
                *src.modifier_mut() = hpo::term::HpoGroup::from(new_roots.iter().copied().collect::<Vec<u32>>());
                m.modifier_roots = new_roots;
                out.bucket("modifier_roots_changed_between_requests");
            }
        for (root, leaves) in &requests {
            let root_class = if *root == 1 {
                "HP1"
            } else if *root == 118 {
                "HP118"
            } else if m.modifier_roots.contains(root) {
                "modifier_root"
            } else {
                "inner_term"
            };
            out.bucket(&format!("root/{root_class}"));
            let should_ok = leaves.iter().all(|l| l == root || m.anc[l].contains(root));
            if leaves.contains(root) {
                out.bucket("request/leaf_equals_root");
            }
            let lset: BTreeSet<u32> = leaves.iter().copied().collect();
            if lset.len() < leaves.len() {
                out.bucket("request/duplicate_leaves");
            }
            if lset.len() > 1 {
                out.bucket("request/several_leaves");
            }
            if lset.iter().any(|a| lset.iter().any(|b| m.anc[b].contains(a))) {
                out.bucket("request/leaf_is_ancestor_of_other_leaf");
            }
            if !should_ok {
                out.bucket("request/leaf_outside_subtree");
            }
            bump(&mut out.events, "Ontology::sub_ontology");
            let res: Result<Result<Ontology, String>, PanicInfo> = guard(|| {
                let r: HpoTerm = src.hpo(*root).expect("root exists");
                let ls: Vec<HpoTerm> = leaves.iter().map(|l| src.hpo(*l).expect("leaf exists")).collect();
                // the leaves arrive as a Vec or through adaptors whose size_hint says "maybe nothing"
                match (u64::from(*root) + leaves.len() as u64 + phase as u64) % 3 {
                    0 => src.sub_ontology(r, ls).map_err(|e| e.to_string()),
                    1 => src.sub_ontology(r, ls.into_iter().filter(|_| true)).map_err(|e| e.to_string()),
                    _ => src.sub_ontology(r, ls.iter().filter_map(|t| Some(*t))).map_err(|e| e.to_string()),
                }
            });
            let sub = match res {
                Err(p) => {
                    out.violate("C14", &format!("panic:sub_ontology/{root_class}"), format!("sub_ontology({root}, {leaves:?}) panicked: {} at {}", p.message, p.location));
                    continue;
                }
                Ok(Err(e)) => {
                    out.check(!should_ok, "C14", "valid_request_refused", || format!("sub_ontology({root}, {leaves:?}) = Err({e}) although every leaf is root or below root"));
                    continue;
                }
                Ok(Ok(o)) => {
                    if !should_ok {
                        out.violate("C14", "invalid_request_accepted", format!("sub_ontology({root}, {leaves:?}) = Ok although a leaf is not below root"));
                        continue;
                    }
                    o
                }
            };
            out.bucket("request/accepted");
            let obs = observe::walk(&sub, &[], &mut out.events);
            let retained: BTreeSet<u32> = obs.terms.keys().copied().collect();
            if retained.len() >= 3 {
                out.nontrivial = true;
            }
            // root and leaves retained
            out.check(retained.contains(root), "C14", "root_missing", || format!("sub_ontology({root}, {leaves:?}) lacks root; retained {retained:?}"));
            for l in &lset {
                out.check(retained.contains(l), "C14", "leaf_missing", || format!("sub_ontology({root}, {leaves:?}) lacks leaf {l}"));
            }
            // only terms on a shortest chain from some leaf to root
            for t in &retained {
                let on_chain = m.ids.contains(t)
                    && lset.iter().any(|l| match (up[l].get(t), up.get(t).and_then(|u| u.get(root)), up[l].get(root)) {
                        (Some(a), Some(b), Some(c)) => a + b == *c,
                        _ => false,
                    });
                out.check(on_chain, "C14", "term_not_on_shortest_chain", || {
                    format!("sub_ontology({root}, {leaves:?}) retains {t}, which is on no shortest chain from a leaf to root")
                });
            }
            // several shortest chains exist for some leaf?
            if lset.iter().any(|l| {
                let d = up[l].get(root).copied().unwrap_or(0);
                d >= 2 && m.parents[l].iter().filter(|p| up[*p].get(root).is_some_and(|x| x + 1 == d)).count() >= 2
            }) {
                out.bucket("several_shortest_chains");
            }
            // names / flags copied, induced links
            for (t, o) in &obs.terms {
                let Some(f) = tf.get(t) else { continue };
                out.check(o.name == f.name && o.obsolete == f.obsolete && o.replacement == f.replaced_by, "C14", "term_data_not_copied", || {
                    format!("term {t}: name/obsolete/replacement ({:?},{},{:?}) differ from the source ({:?},{},{:?})", o.name, o.obsolete, o.replacement, f.name, f.obsolete, f.replaced_by)
                });
                let exp_par: Vec<u32> = m.parents[t].iter().copied().filter(|p| retained.contains(p)).collect();
                out.check(o.parents == exp_par, "C14", "links_not_induced", || {
                    format!("term {t}: parents {:?}, source parents induced on the retained set {exp_par:?}", o.parents)
                });
            }
            // leaf-root distance preserved (BFS over the result's observed parents)
            for l in &lset {
                let mut dist: BTreeMap<u32, usize> = BTreeMap::new();
                dist.insert(*l, 0);
                let mut q = std::collections::VecDeque::from([*l]);
                while let Some(x) = q.pop_front() {
                    let dx = dist[&x];
                    if let Some(t) = obs.terms.get(&x) {
                        for p in &t.parents {
                            if !dist.contains_key(p) {
                                dist.insert(*p, dx + 1);
                                q.push_back(*p);
                            }
                        }
                    }
                }
                out.check(dist.get(root) == up[l].get(root), "C14", "leaf_distance_changed", || {
                    format!("leaf {l}: distance to root {root} is {:?} in the result, {:?} in the source", dist.get(root), up[l].get(root))
                });
            }
            // records: kept iff directly annotated to a retained non-modifier term
            let mut sub_facts = FactSet::default();
            for t in &retained {
                if let Some(f) = tf.get(t) {
                    sub_facts.terms.push((*f).clone());
                }
            }
            for t in &retained {
                if let Some(ps) = m.parents.get(t) {
                    for p in ps.iter().filter(|p| retained.contains(p)) {
                        sub_facts.edges.push((*t, *p));
                    }
                }
            }
            for k in 0..3 {
                for r in &view.recs[k] {
                    let direct = &m.direct[k][&r.id];
                    let kept_terms: Vec<u32> = direct.iter().copied().filter(|t| retained.contains(t)).collect();
                    let should_keep = kept_terms.iter().any(|t| !m.is_modifier(*t));
                    for t in &kept_terms {
                        if m.modifier_roots.contains(t) {
                            out.bucket("annotation_on_modifier_root_retained");
                        } else if m.is_modifier(*t) {
                            out.bucket("annotation_on_modifier_descendant_retained");
                        }
                    }
                    let got = obs.recs[k].get(&r.id);
                    let only_modifier_roots = !kept_terms.is_empty() && kept_terms.iter().all(|t| m.modifier_roots.contains(t));
                    match (should_keep, got) {
                        (true, Some(g)) => {
                            out.bucket("record_kept");
                            out.check(g.terms == kept_terms, "C14", &format!("record_terms/{}", KIND_NAMES[k]), || {
                                format!("{} {}: direct terms {:?}, source direct terms ∩ retained = {kept_terms:?}", KIND_NAMES[k], r.id, g.terms)
                            });
                            out.check(g.name == r.name, "C14", "record_name", || format!("{} {} renamed", KIND_NAMES[k], r.id));
                        }
                        (false, None) => {
                            out.bucket("record_dropped");
                            out.comparisons += 1;
                        }
                        (true, None) => out.violate(
                            "C14",
                            &format!("record_wrongly_dropped/{}", KIND_NAMES[k]),
                            format!("{} {} is directly annotated to retained phenotype term(s) {kept_terms:?} but was dropped (root {root}, leaves {leaves:?})", KIND_NAMES[k], r.id),
                        ),
                        (false, Some(g)) => out.violate(
                            "C14",
                            &format!(
                                "record_wrongly_kept/{}/{}",
                                KIND_NAMES[k],
                                if kept_terms.is_empty() { "no_retained_term" } else if only_modifier_roots { "only_modifier_roots" } else { "only_modifier_terms" }
                            ),
                            format!(
                                "{} {} kept with terms {:?} although none of its retained direct terms {kept_terms:?} is a non-modifier term (modifier roots {:?}; root {root}, leaves {leaves:?})",
                                KIND_NAMES[k], r.id, g.terms, m.modifier_roots
                            ),
                        ),
                    }
                }
                // self-consistency below is judged against the records the result actually contains
                for (rid, g) in &obs.recs[k] {
                    sub_facts.recs[k].push(RecFact { id: *rid, name: g.name.clone(), terms: g.terms.clone() });
                }
            }
            // the result must satisfy closure / inheritance / IC against its own facts
            let sm = Model::new(&sub_facts, false);
            let expected = sm.expected_obs(&sub_facts, &obs.version);
            let mut diffs = Vec::new();
            observe::diff(&expected, &obs, &mut diffs, &mut out.comparisons);
            for d in diffs {
                // record-set differences are already reported above with a precise classification
                if matches!(d.site.as_str(), "gene_set" | "omim_set" | "orpha_set" | "term_set" | "len") {
                    continue;
                }
                out.violate("C14", &format!("result_vs_own_facts/{}", d.site), d.detail);
            }
        }
        }
        out
    }
}
