//! C15: rejected Builder calls have no effect; built ontologies have no dangling ids.
//! History monitor: the harness records (call, args, Ok|Err) and the model applies only the
//! calls that returned Ok.

use super::common::walk_and_diff;
use crate::facts::{FactSet, RecFact, TermFact, KIND_NAMES};
use crate::json::Json;
use crate::observe::{bump, guard};
use crate::rng::{hash_bytes, Rng};
use crate::runner::{CaseOut, Monitor, Tier};
use hpo::annotations::{GeneId, OmimDiseaseId, OrphaDiseaseId};
use hpo::builder::Builder;
use hpo::HpoTermId;
use std::collections::BTreeSet;

pub struct C15;

impl Monitor for C15 {
    fn id(&self) -> &'static str {
        "C15"
    }
    fn rule(&self) -> String {
        "A case = one Builder call history over all typestates: new_term (with repeats); add_parent(p,c) with p and/or c absent or present (successful edges follow a hidden topological order); add_gene/add_omim_disease/add_orpha_disease; annotate_* with present and absent terms, for new and already existing records; failing and succeeding calls interleaved, absent ids adjacent to present ones; built minimal or with defaults. \
         Every call and its Ok/Err result is recorded; a call must return Err exactly when a referenced term is absent; the whole read API of the result is walked under catch_unwind and must equal the model of the successful calls alone (no extra child, record, link or changed IC total; no panic). \
         Distinct = hash of the call sequence; non-trivial = at least one failing call and >= 3 terms."
            .into()
    }
    fn assumptions(&self) -> Vec<String> {
        vec!["successful add_parent calls are acyclic; ids < 10^7; one name per term id".into()]
    }
    fn plan(&self, tier: Tier) -> Vec<String> {
        let mut v: Vec<String> = (0..20).map(|i| format!("cat:{i}")).collect();
        for i in 0..tier.pick(6000, 150_000) {
            v.push(format!("rnd:{i}"));
        }
        v
    }
    fn mandatory_buckets(&self, _tier: Tier) -> Vec<String> {
        [
            "call/add_parent_ok",
            "call/add_parent_absent_parent",
            "call/add_parent_absent_child",
            "call/add_parent_both_absent",
            "call/annotate_ok",
            "call/annotate_absent_term_new_record",
            "call/annotate_absent_term_existing_record",
            "call/add_record_without_term",
            "build/minimal",
            "build/with_defaults",
            "history_without_failing_call",
            "history_with_more_than_65535_terms",
            "history_with_chain_of_more_than_65_links",
            "history_with_65535_genes",
            "records_sharing_a_name",
            "term_id_0_present",
            "term_id_9999999_present",
        ]
        .iter()
        .map(|s| (*s).to_string())
        .collect()
    }

    #[allow(clippy::too_many_lines)]
    fn run_case(&self, label: &str, seed: u64, _tier: Tier) -> CaseOut {
        let mut out = CaseOut::new();
        let mut rng = Rng::for_case(seed, "C15", label);
        let cat: Option<u64> = label.strip_prefix("cat:").map(|s| s.parse().unwrap());
        let defaults = cat.map_or_else(|| rng.chance(1, 2), |c| c % 2 == 0);
        let fail_rate = match cat {
            Some(c) if c % 4 == 3 => 0, // histories without any failing call
            Some(_) => 3,
            None => [0, 2, 3, 5][rng.usize_below(4)],
        };
        // catalogue 14/15: a chain of 70-95 terms numbered bottom-up (ids decrease from the root to the
        // leaf), built without defaults; catalogue 16/17: exactly 65 535 distinct genes, then a few more calls
        let deep_chain = matches!(cat, Some(14) | Some(15));
        let many_genes = matches!(cat, Some(16) | Some(17));
        // catalogue 18/19 and a third of the random histories: several record ids share one name
        let shared_names = matches!(cat, Some(18) | Some(19)) || (cat.is_none() && rng.chance(1, 3));
        let defaults = defaults && !deep_chain;
        let n = if deep_chain { rng.urange(70, 95) } else { rng.urange(1, 30) };
        let mut hist: Vec<String> = Vec::new();
        let mut f = FactSet::default();
        f.version = (2020, 2, 2);

        // term ids: present ids, and absent ids adjacent to them
        let mut present: Vec<u32> = Vec::new();
        if defaults {
            present.push(1);
            present.push(118);
        }
        while !deep_chain && present.len() < n + if defaults { 2 } else { 0 } {
            let id = rng.range(2, 400) as u32 * 2; // even ids present
            if !present.contains(&id) && id != 118 {
                present.push(id);
            }
        }
        if deep_chain {
            // root first (highest id), every following term has a smaller id
            let top = 2 * (n as u32) + 2 * rng.range(2, 200) as u32;
            for i in 0..n as u32 {
                present.push(top - 2 * i);
            }
            out.bucket("history_with_chain_of_more_than_65_links");
        }
        // two catalogue histories register more terms than a 16-bit index can hold (even ids from 1000 on;
        // odd ids stay absent). Edges and annotations still only involve the first ~30 terms.
        let many_terms = matches!(cat, Some(12) | Some(13));
        let small = present.len();
        if many_terms {
            let extra = if cat == Some(12) { 65_536 - small } else { 66_000 };
            for i in 0..extra as u32 {
                present.push(1000 + 2 * i);
            }
            out.bucket("history_with_more_than_65535_terms");
        }
        // HP:0000000 is an ordinary term id: present in a third of the histories, otherwise a popular absent id
        if rng.chance(1, 3) {
            present.push(0);
            out.bucket("term_id_0_present");
        }
        // ... and so is the largest id of the id space. Placed among the first terms so that it takes part
        // in links and annotations (as a parent as well as a child)
        if !deep_chain && rng.chance(1, 4) {
            let pos = rng.usize_below(present.len().min(10) + 1);
            present.insert(pos, 9_999_999);
            out.bucket("term_id_9999999_present");
        }
        let absent_near = |rng: &mut Rng, present: &[u32]| -> u32 {
            loop {
                let base = *rng.pick(present);
                let cand = match rng.below(7) {
                    0 => base + 1,
                    1 => base.saturating_sub(1),
                    2 => rng.range(1000, 9_999_999) as u32,
                    // ids beyond the 10^7 id space are absent by construction
                    3 => *rng.pick(&[10_000_000u32, 10_000_001, 12_345_678, u32::MAX, u32::MAX - 1]),
                    4 => 9_999_999,
                    // an absent id whose low bits equal a present id (2^24, 2^31, 10^7 apart)
                    5 => base.wrapping_add(*rng.pick(&[1u32 << 24, 1 << 31, 10_000_000, 20_000_000, 1 << 25])),
                    _ => 0,
                };
                if !present.contains(&cand) {
                    return cand;
                }
            }
        };

        let r = guard(|| {
            let mut out_local = CaseOut::new();
            let mut b = Builder::new();
            let mut order = present.clone();
            rng.shuffle(&mut order);
            for id in &order {
                let name = format!("term {id}");
                b.new_term(&name, *id);
                hist.push(format!("new_term({name:?}, {id})"));
                f.terms.push(TermFact { id: *id, name, obsolete: false, replaced_by: None });
                if rng.chance(1, 10) {
                    b.new_term(&format!("term {id}"), *id); // repeated call, same data
                    hist.push(format!("new_term(\"term {id}\", {id}) [repeat]"));
                }
            }
            b.set_hpo_version(f.version);
            let mut b = b.terms_complete();

            // hidden topological order = order of `present`; edges child -> earlier term
            let n_edge_calls = rng.urange(0, 2 * present.len().min(40));
            let mut failing_calls = 0u32;
            for _ in 0..n_edge_calls {
                let fail = fail_rate > 0 && rng.below(10) < fail_rate;
                let (p, c, kind): (u32, u32, &str) = if fail {
                    match rng.below(3) {
                        0 => (absent_near(&mut rng, &present), *rng.pick(&present), "absent_parent"),
                        1 => (*rng.pick(&present), absent_near(&mut rng, &present), "absent_child"),
                        _ => (absent_near(&mut rng, &present), absent_near(&mut rng, &present), "both_absent"),
                    }
                } else {
                    if present.len() < 2 || deep_chain {
                        continue;
                    }
                    let ci = rng.urange(1, present.len().min(40) - 1);
                    let pi = rng.usize_below(ci);
                    (present[pi], present[ci], "ok")
                };
                bump(&mut out_local.events, "Builder::add_parent");
                let res = b.add_parent(p, c);
                hist.push(format!("add_parent({p}, {c}) -> {}", if res.is_ok() { "Ok" } else { "Err" }));
                out_local.bucket(&format!("call/add_parent_{kind}"));
                let should_ok = present.contains(&p) && present.contains(&c);
                if res.is_ok() != should_ok {
                    out_local.violate("C15", &format!("add_parent_result/{kind}"), format!("add_parent({p},{c}) returned {:?}; parent present: {}, child present: {}", res.is_ok(), present.contains(&p), present.contains(&c)));
                }
                if res.is_ok() {
                    // (an accepted call that names an absent term is reported above; it cannot be part of
                    // the model, which only knows the terms that exist)
                    if should_ok {
                        f.edges.push((c, p));
                    }
                } else {
                    failing_calls += 1;
                }
            }
            if deep_chain {
                for i in 1..present.len() {
                    let (p, c) = (present[i - 1], present[i]);
                    bump(&mut out_local.events, "Builder::add_parent");
                    let res = b.add_parent(p, c);
                    hist.push(format!("add_parent({p}, {c}) -> {}", if res.is_ok() { "Ok" } else { "Err" }));
                    if res.is_ok() {
                        f.edges.push((c, p));
                    } else {
                        out_local.violate("C15", "add_parent_result/ok", format!("add_parent({p},{c}) failed although both terms exist"));
                    }
                }
            }
            if defaults && !f.edges.contains(&(118, 1)) && rng.chance(3, 4) {
                let _ = b.add_parent(1u32, 118u32);
                hist.push("add_parent(1, 118) -> Ok".into());
                f.edges.push((118, 1));
            }
            let mut b = b.connect_all_terms();

            // 65 535 distinct genes are within the documented limit of the information-content step
            let mut gene_ids_accepted: BTreeSet<u32> = BTreeSet::new();
            if many_genes {
                out_local.bucket("history_with_65535_genes");
                for g in 0..65_535u32 {
                    let gid = 100 + g;
                    let term = present[(g as usize) % present.len().min(30)];
                    let name = format!("MG{gid}");
                    let res = b.annotate_gene(GeneId::from(gid), &name, HpoTermId::from_u32(term));
                    if res.is_ok() {
                        gene_ids_accepted.insert(gid);
                        f.recs[0].push(RecFact { id: gid, name, terms: vec![term] });
                    } else {
                        out_local.violate("C15", "annotate_result/ok", format!("annotate_gene({gid}, _, {term}) failed although the term exists ({} genes so far)", g));
                    }
                }
                bump(&mut out_local.events, "Builder::annotate");
                hist.push("annotate_gene(100..=65634, \"MG<id>\", present term) -> Ok  [65 535 calls]".into());
                // further calls: new gene ids on present and absent terms, known genes on present terms. The
                // model follows the returned results; the reason for a refusal is not judged here.
                for j in 0..rng.urange(2, 6) {
                    // catalogue 16 goes one gene beyond the limit, catalogue 17 stays at it
                    let what = if cat == Some(17) { 1 + rng.below(2) } else if j == 0 { 0 } else { rng.below(3) };
                    let (gid, term) = match what {
                        0 => (70_000 + j as u32, *rng.pick(&present)),
                        1 => (80_000 + j as u32, absent_near(&mut rng, &present)),
                        _ => (100 + rng.range(0, 65_534) as u32, *rng.pick(&present)),
                    };
                    let name = format!("MG{gid}");
                    let res = b.annotate_gene(GeneId::from(gid), &name, HpoTermId::from_u32(term));
                    hist.push(format!("annotate_gene({gid}, {name:?}, {term}) -> {}", if res.is_ok() { "Ok" } else { "Err" }));
                    if res.is_ok() {
                        gene_ids_accepted.insert(gid);
                        match f.recs[0].iter().position(|r| r.id == gid) {
                            Some(i) => f.recs[0][i].terms.push(term),
                            None => f.recs[0].push(RecFact { id: gid, name, terms: vec![term] }),
                        }
                    } else {
                        failing_calls += 1;
                        if present.contains(&term) {
                            out_local.bucket("call/refused_for_another_reason_than_an_absent_term");
                        }
                    }
                }
            }
            // annotation calls
            let n_ann = if many_genes { 0 } else { rng.urange(0, 40) };
            for _ in 0..n_ann {
                let k = rng.usize_below(3);
                let rid = rng.range(1, 9) as u32;
                let existing = f.recs[k].iter().position(|r| r.id == rid);
                // one name per id for successful calls; failing calls may carry another name
                let name = if shared_names {
                    // one name per id, but several ids carry the same name (also the empty one)
                    if rid % 4 == 0 { String::new() } else { format!("{}{}", ["G", "omim ", "orpha "][k], rid % 4) }
                } else {
                    format!("{}{rid}", ["G", "omim ", "orpha "][k])
                };
                if shared_names {
                    out_local.bucket("records_sharing_a_name");
                }
                if rng.chance(1, 8) {
                    bump(&mut out_local.events, "Builder::add_record");
                    match k {
                        0 => b.add_gene(&name, GeneId::from(rid)),
                        1 => {
                            b.add_omim_disease(&name, OmimDiseaseId::from(rid));
                        }
                        _ => {
                            b.add_orpha_disease(&name, OrphaDiseaseId::from(rid));
                        }
                    }
                    hist.push(format!("add_{}({name:?}, {rid})", KIND_NAMES[k]));
                    out_local.bucket("call/add_record_without_term");
                    if existing.is_none() {
                        f.recs[k].push(RecFact { id: rid, name, terms: vec![] });
                    }
                    continue;
                }
                let fail = fail_rate > 0 && rng.below(10) < fail_rate;
                let term = if fail { absent_near(&mut rng, &present) } else { *rng.pick(&present) };
                // another spelling of the name: on failing calls, and now and then on a call for a record that
                // exists already (the record keeps its first name; the call is an ordinary annotation)
                let call_name = if (fail && rng.chance(1, 2)) || (!fail && existing.is_some() && rng.chance(1, 5)) {
                    out_local.bucket("call/annotate_known_record_with_another_name");
                    format!("{name} (other name)")
                } else {
                    name.clone()
                };
                bump(&mut out_local.events, "Builder::annotate");
                let res = match k {
                    0 => b.annotate_gene(GeneId::from(rid), &call_name, HpoTermId::from_u32(term)),
                    1 => b.annotate_omim_disease(OmimDiseaseId::from(rid), &call_name, HpoTermId::from_u32(term)),
                    _ => b.annotate_orpha_disease(OrphaDiseaseId::from(rid), &call_name, HpoTermId::from_u32(term)),
                };
                hist.push(format!("annotate_{}({rid}, {call_name:?}, {term}) -> {}", KIND_NAMES[k], if res.is_ok() { "Ok" } else { "Err" }));
                let should_ok = present.contains(&term);
                let kind = if should_ok {
                    "ok"
                } else if existing.is_some() {
                    "absent_term_existing_record"
                } else {
                    "absent_term_new_record"
                };
                out_local.bucket(&format!("call/annotate_{kind}"));
                if res.is_ok() != should_ok {
                    out_local.violate("C15", &format!("annotate_result/{kind}"), format!("annotate_{}({rid}, _, {term}) returned ok={} although term present = {should_ok}", KIND_NAMES[k], res.is_ok()));
                }
                if res.is_ok() {
                    if should_ok {
                        match existing {
                            Some(i) => f.recs[k][i].terms.push(term),
                            None => f.recs[k].push(RecFact { id: rid, name: call_name, terms: vec![term] }),
                        }
                    }
                } else {
                    failing_calls += 1;
                }
            }
            let b = match b.calculate_information_content() {
                Ok(b) => b,
                Err(e) => {
                    if gene_ids_accepted.len() > 65_535 {
                        // more than 65 535 genes were ACCEPTED: the information-content step documents
                        // this limit; nothing further to compare
                        out_local.bucket("build_refused_above_documented_record_limit");
                        return Ok(None);
                    }
                    return Err(e.to_string());
                }
            };
            let ont = if defaults {
                out_local.bucket("build/with_defaults");
                b.build_with_defaults().map_err(|e| e.to_string())?
            } else {
                out_local.bucket("build/minimal");
                b.build_minimal()
            };
            Ok::<_, String>(Some((ont, out_local, failing_calls)))
        });
        out.case = Json::obj().set("defaults", Json::Bool(defaults)).set("history", Json::arr_str(&hist));
        out.sig = hash_bytes(hist.join("\n").as_bytes());
        let (ont, local, failing) = match r {
            Err(p) => {
                out.violate("C15", "panic:builder_call", format!("a Builder call panicked: {} at {}", p.message, p.location));
                return out;
            }
            Ok(Err(e)) => {
                out.violate("C15", "build_failed", format!("building failed: {e}"));
                return out;
            }
            Ok(Ok(Some(x))) => x,
            Ok(Ok(None)) => {
                out.bucket("build_refused_above_documented_record_limit");
                out.bucket("history_with_65535_genes");
                return out;
            }
        };
        // merge local results
        for (k, v) in &local.buckets {
            out.bucket_n(k, *v);
        }
        crate::observe::merge(&mut out.events, &local.events);
        out.violations.extend(local.violations);
        out.nontrivial = failing > 0 && f.terms.len() >= 3;
        let class = if failing > 0 { "after_failed_calls" } else { "all_calls_ok" };
        if failing == 0 {
            out.bucket("history_without_failing_call");
        }
        out.bucket_n("failing_calls", u64::from(failing));

        // the result must equal the model of the successful calls alone, and nothing may panic
        let (_m, obs, diffs) = walk_and_diff(&f, defaults, &ont, &mut out);
        for d in diffs {
            out.violate("C15", &format!("{class}/{}", d.site), d.detail);
        }
        // referential closure: every handed-out term id resolves
        let known: BTreeSet<u32> = obs.terms.keys().copied().collect();
        for (id, t) in &obs.terms {
            for (what, v) in [("parent", &t.parents), ("child", &t.children), ("ancestor", &t.ancestors)] {
                for x in v {
                    out.check(known.contains(x), "C15", &format!("dangling_term_id/{what}"), || format!("term {id} lists {what} {x}, which does not exist in the ontology"));
                }
            }
        }
        for k in 0..3 {
            for (rid, r) in &obs.recs[k] {
                for t in &r.terms {
                    out.check(known.contains(t), "C15", &format!("dangling_term_id/{}_direct_term", KIND_NAMES[k]), || {
                        format!("{} {rid} lists direct term {t}, which does not exist in the ontology", KIND_NAMES[k])
                    });
                }
            }
        }
        out
    }
}
