pub mod common;
pub mod group;
pub mod pairs;
pub mod state;

use crate::runner::Monitor;

pub fn get(id: &str) -> Option<Box<dyn Monitor>> {
    match id {
        "C01" => Some(Box::new(state::StateMonitor { prop: "C01" })),
        "C02" => Some(Box::new(state::StateMonitor { prop: "C02" })),
        "C03" => Some(Box::new(state::StateMonitor { prop: "C03" })),
        "C19" => Some(Box::new(state::StateMonitor { prop: "C19" })),
        "C04" => Some(Box::new(pairs::PairMonitor { prop: "C04" })),
        "C11" => Some(Box::new(pairs::PairMonitor { prop: "C11" })),
        "C12" => Some(Box::new(pairs::PairMonitor { prop: "C12" })),
        _ => None,
    }
}
