pub mod common;
pub mod state;

use crate::runner::Monitor;

pub fn get(id: &str) -> Option<Box<dyn Monitor>> {
    match id {
        "C01" => Some(Box::new(state::StateMonitor { prop: "C01" })),
        "C02" => Some(Box::new(state::StateMonitor { prop: "C02" })),
        "C03" => Some(Box::new(state::StateMonitor { prop: "C03" })),
        "C19" => Some(Box::new(state::StateMonitor { prop: "C19" })),
        _ => None,
    }
}
