pub mod c05;
pub mod c06;
pub mod c08;
pub mod c10;
pub mod c13;
pub mod c14;
pub mod c15;
pub mod c17;
pub mod c18;
pub mod c20;
pub mod common;
pub mod group;
pub mod meta;
pub mod pairs;
pub mod state;

use crate::runner::Monitor;

pub fn get(id: &str) -> Option<Box<dyn Monitor>> {
    match id {
        "C01" => Some(Box::new(state::StateMonitor { prop: "C01" })),
        "C02" => Some(Box::new(state::StateMonitor { prop: "C02" })),
        "C03" => Some(Box::new(state::StateMonitor { prop: "C03" })),
        "C19" => Some(Box::new(state::StateMonitor { prop: "C19" })),
        "C04" => Some(Box::new(pairs::PairMonitor { prop: "C04" })),
        "C11" => Some(Box::new(pairs::PairMonitor { prop: "C11" })),
        "C12" => Some(Box::new(pairs::PairMonitor { prop: "C12" })),
        "C05" => Some(Box::new(c05::C05)),
        "C06" => Some(Box::new(c06::C06::new())),
        "C10" => Some(Box::new(c10::C10)),
        "C20" => Some(Box::new(c20::C20)),
        "C07" => Some(Box::new(meta::MetaMonitor { prop: "C07" })),
        "C08" => Some(Box::new(c08::C08)),
        "C09" => Some(Box::new(meta::MetaMonitor { prop: "C09" })),
        "C16" => Some(Box::new(meta::MetaMonitor { prop: "C16" })),
        "C13" => Some(Box::new(c13::C13)),
        "C14" => Some(Box::new(c14::C14)),
        "C15" => Some(Box::new(c15::C15)),
        "C17" => Some(Box::new(c17::C17)),
        "C18" => Some(Box::new(c18::C18)),
        _ => None,
    }
}
