//! Pairwise monitors on generated ontologies:
//! C11 (distances / paths), C04 (built-in similarities), C12 part B (ancestor set algebra).

use super::common::*;
use crate::facts::KIND_NAMES;
use crate::json::Json;
use crate::model::Model;
use crate::observe::{bump, guard, Obs, TermObs};
use crate::rng::Rng;
use crate::runner::{CaseOut, Monitor, Tier, Violation};
use hpo::annotations::AnnotationId;
use hpo::similarity::{
    Builtins, Distance, GraphIc, InformationCoefficient, Jc, Lin, Mutation, Relevance, Resnik, Similarity,
};
use hpo::term::InformationContentKind;
use hpo::{HpoTerm, Ontology};
use std::collections::{BTreeMap, BTreeSet, VecDeque};

pub struct PairMonitor {
    pub prop: &'static str,
}

const KINDS: [InformationContentKind; 3] = [
    InformationContentKind::Gene,
    InformationContentKind::Omim,
    InformationContentKind::Orpha,
];

struct PairCase {
    sc: StateCase,
    ont: Ontology,
    obs: Obs,
    model: Model,
    /// when set, pair queries are restricted to these terms (real-scale ontology)
    subset: Option<Vec<u32>>,
}

impl PairCase {
    fn ids(&self) -> Vec<u32> {
        match &self.subset {
            Some(s) => s.clone(),
            None => self.obs.terms.keys().copied().collect(),
        }
    }
}

/// Few terms, very many records: two terms whose gene sets together exceed 65 535 entries (the
/// union does not), and terms annotated with all but one of more than 10 000 records, so that their
/// information content is tiny (< 1e-4) but not zero.
fn many_records_case(rng: &mut Rng, out: &mut CaseOut) -> Option<PairCase> {
    use crate::facts::{FactSet, RecFact, TermFact};
    let mut f = FactSet::default();
    // 1 <- 118 <- {3, 4};  1 <- 5 <- 6
    for id in [1u32, 118, 3, 4, 5, 6] {
        f.terms.push(TermFact { id, name: format!("t{id}"), obsolete: false, replaced_by: None });
    }
    f.edges = vec![(118, 1), (3, 118), (4, 118), (5, 1), (6, 5)];
    let n_genes = 60_000 + rng.range(0, 4000) as u32;
    let third = n_genes / 3;
    for g in 0..n_genes {
        let mut terms = Vec::new();
        if g < 2 * third {
            terms.push(3);
        }
        if g >= third {
            terms.push(4);
        }
        f.recs[0].push(RecFact { id: g + 1, name: format!("G{g}"), terms });
    }
    f.recs[0].push(RecFact { id: n_genes + 1, name: "OTHER".into(), terms: vec![6] });
    let n_omim = 20_000 + rng.range(0, 3000) as u32;
    for d in 0..n_omim {
        f.recs[1].push(RecFact { id: d + 1, name: format!("D{d}"), terms: vec![118] });
    }
    f.recs[1].push(RecFact { id: n_omim + 1, name: "other".into(), terms: vec![5] });
    let n_orpha = 11_000 + rng.range(0, 3000) as u32;
    for d in 0..n_orpha {
        f.recs[2].push(RecFact { id: d + 1, name: format!("O{d}"), terms: vec![3] });
    }
    f.recs[2].push(RecFact { id: n_orpha + 1, name: "other".into(), terms: vec![6] });
    let path = if rng.chance(1, 2) { PathKind::BuilderMinimal } else { PathKind::BytesV3 };
    let built = match path {
        PathKind::BuilderMinimal => crate::drive::via_builder(&f, None, false),
        _ => crate::drive::via_bytes(&f, 3).1,
    };
    let ont = match built {
        Ok(o) => o,
        Err(e) => {
            out.violate("C04", &format!("construct_failed/{}", path.name()), format!("many-records ontology rejected: {e}"));
            return None;
        }
    };
    let model = Model::new(&f, false);
    let ids: Vec<u32> = f.terms.iter().map(|t| t.id).collect();
    let obs = crate::observe::walk(&ont, &ids, &mut out.events);
    out.bucket("more_than_65535_records_on_two_terms_together");
    out.bucket("information_content_below_1e-4");
    out.case = Json::obj()
        .set("kind", Json::s("many_records"))
        .set("genes", Json::u(u64::from(n_genes) + 1))
        .set("omim", Json::u(u64::from(n_omim) + 1))
        .set("orpha", Json::u(u64::from(n_orpha) + 1))
        .set("path", Json::s(path.name()));
    let sc = StateCase {
        view: FactSet::default(),
        facts: FactSet::default(),
        path,
        order: crate::drive::OrderMode::AsGiven,
        shape: "6 terms, > 90 000 records".into(),
        id_mode: "fixed".into(),
    };
    Some(PairCase { sc, ont, obs, model, subset: Some(ids) })
}

/// the complete HPO shipped as tests/ontology.hpo, with a sample of ~36 terms (random terms plus
/// ancestors / descendants / siblings of some of them) for the pair queries
fn real_pair_case(rng: &mut Rng, out: &mut CaseOut) -> Option<PairCase> {
    let (_v, view, bytes) = match shipped_facts("ontology.hpo") {
        Ok(x) => x,
        Err(e) => {
            out.inconclusive = Some(e);
            return None;
        }
    };
    let ont = match crate::drive::from_bytes(&bytes) {
        Ok(o) => o,
        Err(e) => {
            out.violate("C08", "shipped_file_rejected", format!("{e}"));
            return None;
        }
    };
    let model = Model::new(&view, true);
    let all: Vec<u32> = model.ids.iter().copied().collect();
    let mut sample: BTreeSet<u32> = BTreeSet::new();
    sample.insert(1);
    sample.insert(118);
    while sample.len() < 22 {
        sample.insert(*rng.pick(&all));
    }
    for t in sample.clone().iter().take(8) {
        let anc: Vec<u32> = model.anc[t].iter().copied().collect();
        if !anc.is_empty() {
            sample.insert(*rng.pick(&anc));
        }
        let desc: Vec<u32> = model.desc[t].iter().copied().collect();
        if !desc.is_empty() {
            sample.insert(*rng.pick(&desc));
        }
        // a sibling
        if let Some(p) = model.parents[t].iter().next() {
            let sib: Vec<u32> = model.children[p].iter().copied().collect();
            sample.insert(*rng.pick(&sib));
        }
    }
    let ids: Vec<u32> = view.terms.iter().map(|t| t.id).collect();
    let obs = crate::observe::walk(&ont, &ids, &mut out.events);
    out.bucket("shipped/ontology.hpo");
    let sc = StateCase {
        view: crate::facts::FactSet::default(),
        facts: crate::facts::FactSet::default(),
        path: PathKind::BytesV3,
        order: crate::drive::OrderMode::AsGiven,
        shape: "complete HPO (tests/ontology.hpo)".into(),
        id_mode: "real".into(),
    };
    let subset: Vec<u32> = sample.into_iter().collect();
    out.case = Json::obj().set("shipped_file", Json::s("ontology.hpo")).set("sampled_terms", Json::arr_u32(&subset));
    Some(PairCase { sc, ont, obs, model, subset: Some(subset) })
}

fn set_of(v: &[u32]) -> BTreeSet<u32> {
    v.iter().copied().collect()
}

fn ids_of(g: &hpo::term::HpoGroup) -> Vec<u32> {
    g.iter().map(|t| t.as_u32()).collect()
}

/// BFS up-distances over the OBSERVED direct parents
fn up_dist_obs(obs: &Obs, t: u32) -> BTreeMap<u32, usize> {
    let mut d = BTreeMap::new();
    d.insert(t, 0usize);
    let mut q = VecDeque::new();
    q.push_back(t);
    while let Some(x) = q.pop_front() {
        let dx = d[&x];
        if let Some(to) = obs.terms.get(&x) {
            for p in &to.parents {
                if !d.contains_key(p) {
                    d.insert(*p, dx + 1);
                    q.push_back(*p);
                }
            }
        }
    }
    d
}

fn relation(m: &Model, a: u32, b: u32) -> &'static str {
    if a == b {
        "same"
    } else if m.anc[&a].contains(&b) {
        "other_is_ancestor"
    } else if m.anc[&b].contains(&a) {
        "other_is_descendant"
    } else if m.term_dist(a, b).is_some() {
        "related"
    } else {
        "disconnected"
    }
}

fn close(obs: f32, exp: f64, tol: f64) -> bool {
    let o = f64::from(obs);
    o.is_finite() && (o - exp).abs() <= tol * exp.abs().max(1.0)
}

impl PairMonitor {
    // -------------------------------------------------------------------------------- C11
    fn c11(&self, pc: &PairCase, out: &mut CaseOut) {
        let m = &pc.model;
        let ids: Vec<u32> = pc.ids();
        let up: BTreeMap<u32, BTreeMap<u32, usize>> = ids.iter().map(|t| (*t, m.up_dist(*t))).collect();
        let is_edge = |x: u32, y: u32| m.parents[&x].contains(&y) || m.parents[&y].contains(&x);
        let mut dist_seen: BTreeMap<(u32, u32), Option<usize>> = BTreeMap::new();
        for a in &ids {
            let ta = pc.ont.hpo(*a).expect("term present");
            for b in &ids {
                let tb = pc.ont.hpo(*b).expect("term present");
                let rel = relation(m, *a, *b);
                out.bucket(&format!("pair/{rel}"));
                let exp_up = up[a].get(b).copied();

                // distance_to_ancestor
                bump(&mut out.events, "HpoTerm::distance_to_ancestor");
                match guard(|| ta.distance_to_ancestor(&tb)) {
                    Ok(d) => out.check(d == exp_up, "C11", &format!("distance_to_ancestor/{rel}"), || {
                        format!("distance_to_ancestor({a},{b}) = {d:?}, BFS says {exp_up:?}")
                    }),
                    Err(p) => out.violate("C11", "panic:distance_to_ancestor", format!("({a},{b}): {}", p.message)),
                }

                // path_to_ancestor
                bump(&mut out.events, "HpoTerm::path_to_ancestor");
                match guard(|| ta.path_to_ancestor(&tb)) {
                    Ok(p) => {
                        let p: Option<Vec<u32>> = p.map(|v| v.iter().map(|x| x.as_u32()).collect());
                        match (&p, exp_up) {
                            (None, None) => out.comparisons += 1,
                            (Some(path), Some(d)) => {
                                let mut ok = path.len() == d;
                                let mut prev = *a;
                                for x in path {
                                    if !m.parents.get(&prev).is_some_and(|ps| ps.contains(x)) {
                                        ok = false;
                                    }
                                    prev = *x;
                                }
                                if d > 0 && path.last() != Some(b) {
                                    ok = false;
                                }
                                if path.len() > d {
                                    out.bucket("ancestor_path_longer_than_distance");
                                }
                                out.check(ok, "C11", &format!("path_to_ancestor_invalid/{rel}"), || {
                                    format!("path_to_ancestor({a},{b}) = {path:?}; must be a chain of {d} parent steps ending in {b}")
                                });
                            }
                            _ => out.violate(
                                "C11",
                                &format!("path_to_ancestor_presence/{rel}"),
                                format!("path_to_ancestor({a},{b}) = {p:?} but BFS distance is {exp_up:?}"),
                            ),
                        }
                    }
                    Err(p) => out.violate("C11", "panic:path_to_ancestor", format!("({a},{b}): {}", p.message)),
                }

                // distance_to_term
                let exp_d = m.term_dist(*a, *b);
                bump(&mut out.events, "HpoTerm::distance_to_term");
                let got_d = match guard(|| ta.distance_to_term(&tb)) {
                    Ok(d) => {
                        out.check(d == exp_d, "C11", &format!("distance_to_term/{rel}"), || {
                            format!("distance_to_term({a},{b}) = {d:?}, model min over common ancestors = {exp_d:?}")
                        });
                        dist_seen.insert((*a, *b), d);
                        Some(d)
                    }
                    Err(p) => {
                        out.violate("C11", "panic:distance_to_term", format!("({a},{b}): {} at {}", p.message, p.location));
                        None
                    }
                };
                if let (Some(d), Some(r)) = (got_d, dist_seen.get(&(*b, *a))) {
                    out.check(d == *r, "C11", "distance_to_term_asymmetric", || {
                        format!("distance_to_term({a},{b}) = {d:?} but ({b},{a}) = {r:?}")
                    });
                }
                if exp_d.is_some() && exp_up.is_some() && exp_d < exp_up {
                    out.bucket("shorter_route_over_higher_common_ancestor");
                }

                // path_to_term (judged for distinct terms only)
                if a != b {
                    bump(&mut out.events, "HpoTerm::path_to_term");
                    match guard(|| ta.path_to_term(&tb)) {
                        Ok(p) => {
                            let p: Option<Vec<u32>> = p.map(|v| v.iter().map(|x| x.as_u32()).collect());
                            match (&p, exp_d) {
                                (None, None) => out.comparisons += 1,
                                (Some(path), Some(d)) => {
                                    let mut walk_ok = !path.is_empty() && path.last() == Some(b);
                                    let mut prev = *a;
                                    for x in path {
                                        if !m.ids.contains(x) || !is_edge(prev, *x) {
                                            walk_ok = false;
                                        }
                                        prev = *x;
                                    }
                                    out.check(walk_ok, "C11", &format!("path_to_term_not_a_walk/{rel}"), || {
                                        format!("path_to_term({a},{b}) = {path:?} is not a walk along parent/child links from {a} ending in {b}")
                                    });
                                    out.check(path.len() == d, "C11", &format!("path_len_ne_distance/{rel}"), || {
                                        format!(
                                            "path_to_term({a},{b}) = {path:?} has {} steps but distance_to_term is {d} (up-distance {exp_up:?})",
                                            path.len()
                                        )
                                    });
                                }
                                _ => out.violate(
                                    "C11",
                                    &format!("path_to_term_presence/{rel}"),
                                    format!("path_to_term({a},{b}) = {p:?} but model distance is {exp_d:?}"),
                                ),
                            }
                        }
                        Err(p) => out.violate(
                            "C11",
                            &format!("panic:path_to_term/{rel}"),
                            format!("({a},{b}): {} at {}", p.message, p.location),
                        ),
                    }
                }
            }
        }
        // tie bucket: two distinct shortest chains
        if ids.iter().any(|t| {
            let ps = &m.parents[t];
            ps.len() >= 2 && {
                let ups: Vec<BTreeMap<u32, usize>> = ps.iter().map(|p| m.up_dist(*p)).collect();
                ups[0].iter().any(|(c, d)| ups[1].get(c) == Some(d))
            }
        }) {
            out.bucket("diamond_with_tie");
        }
    }

    // -------------------------------------------------------------------------------- C12 (B)
    fn c12b(&self, pc: &PairCase, out: &mut CaseOut) {
        let ids: Vec<u32> = pc.ids();
        let all_ids: Vec<u32> = pc.obs.terms.keys().copied().collect();
        // constructor FromIterator<HpoTerm> (arbitrary iteration order of the ontology, with repeats)
        // and HpoGroup::terms must agree with the id set
        {
            bump(&mut out.events, "HpoGroup::from_iter<HpoTerm>");
            let r = guard(|| {
                let g: hpo::term::HpoGroup = pc.ont.iter().chain(pc.ont.iter().take(3)).collect();
                let back: Vec<u32> = g.terms(&pc.ont).map(|t| t.id().as_u32()).collect();
                (ids_of(&g), back)
            });
            match r {
                Ok((g, back)) => {
                    out.check(g == all_ids, "C12", "group_from_term_iterator", || format!("collecting the ontology's terms (with repeats) into an HpoGroup gives {} ids, the id set has {}", g.len(), all_ids.len()));
                    out.check(back == all_ids, "C12", "group_terms_iterator", || format!("HpoGroup::terms yields {} terms for {} ids", back.len(), all_ids.len()));
                }
                Err(p) => out.violate("C12", "panic:group_from_term_iterator", format!("{}", p.message)),
            }
        }
        for a in &ids {
            let ta = pc.ont.hpo(*a).expect("term");
            let aa = set_of(&pc.obs.terms[a].ancestors);
            for b in &ids {
                let tb = pc.ont.hpo(*b).expect("term");
                let bb = set_of(&pc.obs.terms[b].ancestors);
                let mut aplus = aa.clone();
                aplus.insert(*a);
                let mut bplus = bb.clone();
                bplus.insert(*b);
                let inter: Vec<u32> = aa.intersection(&bb).copied().collect();
                let inter_all: Vec<u32> = aplus.intersection(&bplus).copied().collect();
                let uni: Vec<u32> = aa.union(&bb).copied().collect();
                let uni_all: Vec<u32> = aplus.union(&bplus).copied().collect();
                if aa.contains(b) || bb.contains(a) {
                    out.bucket("pair_ancestor_descendant");
                }
                if a == b {
                    out.bucket("pair_same_term");
                }

                macro_rules! q {
                    ($name:expr, $call:expr, $exp:expr) => {{
                        bump(&mut out.events, $name);
                        match guard(|| ids_of(&$call)) {
                            Ok(v) => out.check(v == $exp, "C12", $name, || {
                                format!("{}({a},{b}) = {v:?}, set algebra of observed ancestor sets = {:?}", $name, $exp)
                            }),
                            Err(p) => out.violate("C12", &format!("panic:{}", $name), format!("({a},{b}): {}", p.message)),
                        }
                    }};
                }
                q!("common_ancestor_ids", ta.common_ancestor_ids(&tb), inter);
                q!("all_common_ancestor_ids", ta.all_common_ancestor_ids(&tb), inter_all);
                q!("union_ancestor_ids", ta.union_ancestor_ids(&tb), uni);

                // all_union_*: documentation is self-contradictory; accept either reading, but one per run
                bump(&mut out.events, "all_union_ancestor_ids");
                let au = guard(|| ids_of(&ta.all_union_ancestor_ids(&tb)));
                match &au {
                    Ok(v) => {
                        let is_a = *v == uni;
                        let is_b = *v == uni_all;
                        out.check(is_a || is_b, "C12", "all_union_ancestor_ids", || {
                            format!("all_union_ancestor_ids({a},{b}) = {v:?}; neither A∪B = {uni:?} nor A∪B∪{{a,b}} = {uni_all:?}")
                        });
                        if is_a && !is_b {
                            out.bucket("all_union_reading_excludes_terms");
                        }
                        if is_b && !is_a {
                            out.bucket("all_union_reading_includes_terms");
                        }
                    }
                    Err(p) => out.violate("C12", "panic:all_union_ancestor_ids", format!("({a},{b}): {}", p.message)),
                }

                // iterator twins: same ids, len, is_empty
                macro_rules! twin {
                    ($name:expr, $call:expr, $idsname:expr, $idscall:expr) => {{
                        bump(&mut out.events, $name);
                        let r = guard(|| {
                            let c = $call;
                            let v: Vec<u32> = c.iter().map(|t| t.id().as_u32()).collect();
                            let v2: Vec<u32> = (&c).into_iter().map(|t| t.id().as_u32()).collect();
                            (v, v2, c.len(), c.is_empty())
                        });
                        match r {
                            Ok((v, v2, len, empty)) => {
                                let expect = ids_of(&$idscall);
                                out.check(
                                    v == expect && v2 == expect && len == expect.len() && empty == expect.is_empty(),
                                    "C12",
                                    &format!("iterator_twin/{}", $name),
                                    || format!("{}({a},{b}) yields {v:?} (len {len}, empty {empty}) but {} = {expect:?}", $name, $idsname),
                                );
                            }
                            Err(p) => out.violate("C12", &format!("panic:{}", $name), format!("({a},{b}): {}", p.message)),
                        }
                    }};
                }
                twin!("common_ancestors", ta.common_ancestors(&tb), "common_ancestor_ids", ta.common_ancestor_ids(&tb));
                twin!(
                    "all_common_ancestors",
                    ta.all_common_ancestors(&tb),
                    "all_common_ancestor_ids",
                    ta.all_common_ancestor_ids(&tb)
                );
                twin!("union_ancestors", ta.union_ancestors(&tb), "union_ancestor_ids", ta.union_ancestor_ids(&tb));
                twin!(
                    "all_union_ancestors",
                    ta.all_union_ancestors(&tb),
                    "all_union_ancestor_ids",
                    ta.all_union_ancestor_ids(&tb)
                );
            }
        }
    }

    // -------------------------------------------------------------------------------- C04
    #[allow(clippy::too_many_lines)]
    fn c04(&self, pc: &PairCase, out: &mut CaseOut) {
        let obs = &pc.obs;
        let ids: Vec<u32> = pc.ids();
        let up: BTreeMap<u32, BTreeMap<u32, usize>> = ids.iter().map(|t| (*t, up_dist_obs(obs, *t))).collect();
        let tol = 1e-4;
        let aplus = |t: &TermObs| {
            let mut s = set_of(&t.ancestors);
            s.insert(t.id);
            s
        };
        let mut cache: BTreeMap<(u32, u32, usize, usize), f32> = BTreeMap::new();
        for k in 0..3 {
            if obs.recs[k].is_empty() {
                out.bucket("kind_with_zero_records");
            }
        }
        // one object per algorithm and kind for the whole case (as a user holds on to a configured
        // similarity): the answer for a pair must not depend on what the object was asked before
        let objs: Vec<_> = (0..3)
            .map(|k| {
                let kind = KINDS[k];
                (
                    GraphIc::new(kind),
                    Resnik::new(kind),
                    Lin::new(kind),
                    Jc::new(kind),
                    Relevance::new(kind),
                    InformationCoefficient::new(kind),
                    Distance::new(),
                    Mutation::new(kind),
                )
            })
            .collect();
        for a in &ids {
            let ta: HpoTerm = pc.ont.hpo(*a).expect("term");
            let oa = &obs.terms[a];
            let ap = aplus(oa);
            for b in &ids {
                let tb: HpoTerm = pc.ont.hpo(*b).expect("term");
                let ob = &obs.terms[b];
                let bp = aplus(ob);
                let ca: Vec<u32> = ap.intersection(&bp).copied().collect();
                let u_excl: BTreeSet<u32> = set_of(&oa.ancestors).union(&set_of(&ob.ancestors)).copied().collect();
                let u_incl: BTreeSet<u32> = ap.union(&bp).copied().collect();
                let dist: Option<usize> = up[a]
                    .iter()
                    .filter_map(|(c, x)| up[b].get(c).map(|y| x + y))
                    .min();
                if ca.is_empty() {
                    out.bucket("pair_without_common_ancestor");
                }
                for k in 0..3 {
                    let ic = |t: u32| f64::from(obs.terms[&t].ic[k]);
                    let (ica, icb) = (ic(*a), ic(*b));
                    let r = ca.iter().map(|c| ic(*c)).fold(0.0f64, f64::max);
                    let lin = if ica + icb == 0.0 { 0.0 } else { 2.0 * r / (ica + icb) };
                    let jc = if a == b {
                        1.0
                    } else if ica == 0.0 || icb == 0.0 {
                        0.0
                    } else {
                        1.0 / (ica + icb - 2.0 * r + 1.0)
                    };
                    let rel = lin * (1.0 - (-r).exp());
                    let icoef = lin * (1.0 - 1.0 / (1.0 + r));
                    let sum = |s: &mut dyn Iterator<Item = u32>| s.map(|c| ic(c)).sum::<f64>();
                    let common_sum = sum(&mut ca.iter().copied());
                    let graphic = |u: &BTreeSet<u32>| {
                        if a == b {
                            1.0
                        } else {
                            let us = sum(&mut u.iter().copied());
                            if us == 0.0 {
                                0.0
                            } else {
                                common_sum / us
                            }
                        }
                    };
                    let g_a = graphic(&u_excl);
                    let g_b = graphic(&u_incl);
                    let distance = dist.map_or(0.0, |d| 1.0 / (d as f64 + 1.0));
                    let la = set_of(&oa.links[k]);
                    let lb = set_of(&ob.links[k]);
                    let mutation = if a == b {
                        1.0
                    } else {
                        let un = la.union(&lb).count();
                        if un == 0 {
                            0.0
                        } else {
                            la.intersection(&lb).count() as f64 / un as f64
                        }
                    };
                    if a != b && la.is_empty() && lb.is_empty() {
                        out.bucket("distinct_pair_without_annotations");
                    }
                    if (ica == 0.0) != (icb == 0.0) {
                        out.bucket("pair_with_one_zero_ic");
                    }

                    let kind = KINDS[k];
                    // (index, name, expected, struct value, builtin value)
                    let o = &objs[k];
                    let algos: [(usize, &str, f64, f32, f32); 8] = [
                        (0, "graphic", g_a, o.0.calculate(&ta, &tb), Builtins::GraphIc(kind).calculate(&ta, &tb)),
                        (1, "resnik", r, o.1.calculate(&ta, &tb), Builtins::Resnik(kind).calculate(&ta, &tb)),
                        (2, "lin", lin, o.2.calculate(&ta, &tb), Builtins::Lin(kind).calculate(&ta, &tb)),
                        (3, "jc", jc, o.3.calculate(&ta, &tb), Builtins::Jc(kind).calculate(&ta, &tb)),
                        (4, "relevance", rel, o.4.calculate(&ta, &tb), Builtins::Relevance(kind).calculate(&ta, &tb)),
                        (5, "informationcoefficient", icoef, o.5.calculate(&ta, &tb), Builtins::InformationCoefficient(kind).calculate(&ta, &tb)),
                        (6, "distance", distance, o.6.calculate(&ta, &tb), Builtins::Distance(kind).calculate(&ta, &tb)),
                        (7, "mutation", mutation, o.7.calculate(&ta, &tb), Builtins::Mutation(kind).calculate(&ta, &tb)),
                    ];
                    // the Default impl is one more documented way to obtain a Distance
                    if k == 0 {
                        let dv = Distance::default().calculate(&ta, &tb);
                        let nv = o.6.calculate(&ta, &tb);
                        out.check(dv.to_bits() == nv.to_bits(), "C04", "default_ne_new/distance", || format!("Distance::default()({a},{b}) = {dv}, Distance::new() gives {nv}"));
                    }
                    for (ai, name, exp, sval, bval) in algos {
                        bump(&mut out.events, "Similarity::calculate");
                        bump(&mut out.events, "Builtins::calculate");
                        let site_k = KIND_NAMES[k];
                        out.check(sval.is_finite() && sval >= 0.0, "C04", &format!("not_finite_nonneg/{name}/{site_k}"), || {
                            format!("{name}({site_k})({a},{b}) = {sval}")
                        });
                        if name == "graphic" {
                            let ok_a = close(sval, g_a, tol);
                            let ok_b = close(sval, g_b, tol);
                            out.check(ok_a || ok_b, "C04", &format!("formula/{name}/{site_k}"), || {
                                format!("graphic({site_k})({a},{b}) = {sval}; formula over anc(a)∪anc(b) = {g_a}, over that plus {{a,b}} = {g_b}")
                            });
                            if ok_a && !ok_b {
                                out.bucket("graphic_union_excludes_terms");
                            }
                            if ok_b && !ok_a {
                                out.bucket("graphic_union_includes_terms");
                            }
                        } else {
                            out.check(close(sval, exp, tol), "C04", &format!("formula/{name}/{site_k}"), || {
                                format!("{name}({site_k})({a},{b}) = {sval}, formula on observed sets/IC = {exp} (ICa={ica}, ICb={icb}, R={r}, d={dist:?})")
                            });
                        }
                        out.check(sval.to_bits() == bval.to_bits() || (sval.is_nan() && bval.is_nan()), "C04", &format!("builtin_ne_struct/{name}"), || {
                            format!("Builtins::{name}({site_k})({a},{b}) = {bval} but the concrete struct gives {sval}")
                        });
                        // documented special cases, exact
                        if a == b && matches!(name, "graphic" | "jc" | "distance" | "mutation") {
                            out.check(sval == 1.0, "C04", &format!("self_similarity_not_1/{name}"), || {
                                format!("{name}({site_k})({a},{a}) = {sval}")
                            });
                        }
                        if name == "mutation" && a != b && la.is_empty() && lb.is_empty() {
                            out.check(sval == 0.0, "C04", &format!("mutation_unannotated_not_0/{site_k}"), || {
                                format!("mutation({site_k})({a},{b}) = {sval} for two distinct terms without annotations")
                            });
                        }
                        // symmetry against the value seen for (b,a)
                        if let Some(prev) = cache.get(&(*b, *a, k, ai)) {
                            let sym = (f64::from(*prev) - f64::from(sval)).abs() <= tol * f64::from(sval).abs().max(1.0)
                                || (prev.is_nan() && sval.is_nan());
                            out.check(sym, "C04", &format!("asymmetric/{name}/{site_k}"), || {
                                format!("{name}({site_k})({a},{b}) = {sval} but ({b},{a}) = {prev}")
                            });
                        }
                        cache.insert((*a, *b, k, ai), sval);
                    }
                }
            }
        }
        // dispatch by name (aliases, case-insensitive) on a sample of pairs
        let names: [(&str, usize); 14] = [
            ("graphic", 0),
            ("GraphIC", 0),
            ("resnik", 1),
            ("lin", 2),
            ("jc", 3),
            ("jc2", 3),
            ("relevance", 4),
            ("rel", 4),
            ("informationcoefficient", 5),
            ("ic", 5),
            ("distance", 6),
            ("dist", 6),
            ("mutation", 7),
            ("mut", 7),
        ];
        // second sweep over the same objects (in another pair order): same answers, bit for bit
        {
            let again: Vec<u32> = ids.iter().rev().copied().take(24).collect();
            for b in &again {
                for a in &again {
                    let (ta, tb) = (pc.ont.hpo(*a).unwrap(), pc.ont.hpo(*b).unwrap());
                    for k in 0..3 {
                        let o = &objs[k];
                        let vals: [(usize, &str, f32); 8] = [
                            (0, "graphic", o.0.calculate(&ta, &tb)),
                            (1, "resnik", o.1.calculate(&ta, &tb)),
                            (2, "lin", o.2.calculate(&ta, &tb)),
                            (3, "jc", o.3.calculate(&ta, &tb)),
                            (4, "relevance", o.4.calculate(&ta, &tb)),
                            (5, "informationcoefficient", o.5.calculate(&ta, &tb)),
                            (6, "distance", o.6.calculate(&ta, &tb)),
                            (7, "mutation", o.7.calculate(&ta, &tb)),
                        ];
                        for (ai, name, v) in vals {
                            bump(&mut out.events, "Similarity::calculate");
                            if let Some(first) = cache.get(&(*a, *b, k, ai)) {
                                out.check(first.to_bits() == v.to_bits() || (first.is_nan() && v.is_nan()), "C04", &format!("answer_changes_on_reuse/{name}"), || {
                                    format!("{name}({})({a},{b}) = {first} when first asked, {v} when the same object is asked again", KIND_NAMES[k])
                                });
                            }
                        }
                    }
                }
            }
            out.bucket("similarity_objects_reused");
        }
        let sample: Vec<u32> = ids.iter().copied().take(6).collect();
        for a in &sample {
            for b in &sample {
                let ta = pc.ont.hpo(*a).unwrap();
                let tb = pc.ont.hpo(*b).unwrap();
                for k in 0..3 {
                    for (name, ai) in names {
                        bump(&mut out.events, "Builtins::new");
                        match Builtins::new(name, KINDS[k]) {
                            Ok(bi) => {
                                let v = bi.calculate(&ta, &tb);
                                let v2 = ta.similarity_score(&tb, &bi);
                                let exp = cache.get(&(*a, *b, k, ai)).copied().unwrap_or(f32::NAN);
                                out.check(
                                    v.to_bits() == exp.to_bits() || (v.is_nan() && exp.is_nan()),
                                    "C04",
                                    &format!("dispatch_by_name/{}", name.to_lowercase()),
                                    || format!("Builtins::new(\"{name}\", {:?})({a},{b}) = {v}, the algorithm of that name gives {exp}", KINDS[k]),
                                );
                                out.check(v.to_bits() == v2.to_bits() || (v.is_nan() && v2.is_nan()), "C04", "similarity_score_twin", || {
                                    format!("similarity_score != calculate for {name}")
                                });
                            }
                            Err(e) => out.violate("C04", &format!("dispatch_unknown_name/{name}"), format!("Builtins::new(\"{name}\") = Err({e})")),
                        }
                    }
                }
            }
        }
    }
}

/// every observable of one ordered pair that this property judges, as a comparable string
fn pair_fingerprint(prop: &str, ont: &Ontology, a: u32, b: u32) -> String {
    let (ta, tb) = (ont.hpo(a).expect("term"), ont.hpo(b).expect("term"));
    match prop {
        "C11" => format!(
            "{:?}|{:?}|{:?}|{:?}",
            ta.distance_to_ancestor(&tb),
            ta.path_to_ancestor(&tb).map(|v| v.iter().map(|x| x.as_u32()).collect::<Vec<_>>()),
            ta.distance_to_term(&tb),
            ta.path_to_term(&tb).map(|v| v.iter().map(|x| x.as_u32()).collect::<Vec<_>>())
        ),
        "C12" => format!(
            "{:?}|{:?}|{:?}|{:?}",
            ids_of(&ta.common_ancestor_ids(&tb)),
            ids_of(&ta.all_common_ancestor_ids(&tb)),
            ids_of(&ta.union_ancestor_ids(&tb)),
            ids_of(&ta.all_union_ancestor_ids(&tb))
        ),
        _ => {
            let mut v: Vec<u32> = Vec::new();
            for k in KINDS {
                for bi in [
                    Builtins::GraphIc(k),
                    Builtins::Resnik(k),
                    Builtins::Lin(k),
                    Builtins::Jc(k),
                    Builtins::Relevance(k),
                    Builtins::InformationCoefficient(k),
                    Builtins::Distance(k),
                    Builtins::Mutation(k),
                ] {
                    v.push(bi.calculate(&ta, &tb).to_bits());
                }
            }
            format!("{v:?}")
        }
    }
}

impl PairMonitor {
    /// Results must be a function of (ontology, pair) only: two ontologies with the SAME term ids but
    /// different links and annotations are queried (1) one after the other in the same memory slot and
    /// (2) alternating pair by pair; every answer must equal the one given in a clean full sweep, and
    /// each sweep is judged by the property's ordinary oracle. Catches state leaking between calls
    /// (memoisation keyed without the ontology, scratch buffers, caches tagged by address).
    fn alternating_case(&self, rng: &mut Rng, tier: Tier, out: &mut CaseOut) {
        let cap = tier.pick(300, 2000);
        let cfg = crate::gen::GenCfg {
            n_min: 4,
            n_max: 16,
            defaults: false,
            flags: false,
            max_paths: Some(cap),
            ..crate::gen::GenCfg::default()
        };
        let fa = crate::gen::gen_facts(rng, &cfg).builder_view();
        // B: same terms, other links (a different random DAG over the same ids) and reshuffled annotations
        let mut fb = fa.clone();
        let ids: Vec<u32> = fa.terms.iter().map(|t| t.id).collect();
        fb.edges.clear();
        for i in 1..ids.len() {
            for _ in 0..rng.urange(0, 2) {
                let p = rng.usize_below(i);
                if !fb.edges.contains(&(ids[i], ids[p])) {
                    fb.edges.push((ids[i], ids[p]));
                }
            }
        }
        for k in 0..3 {
            for r in &mut fb.recs[k] {
                r.terms = (0..rng.urange(0, 3)).map(|_| *rng.pick(&ids)).collect();
            }
        }
        if crate::model::Model::new(&fb, false).max_path_count(cap * 4) > cap {
            fb.edges.truncate(ids.len());
        }
        out.sig = crate::rng::hash_u64s(&[fa.content_hash(), fb.content_hash(), 0xa17]);
        out.nontrivial = ids.len() >= 4;
        out.bucket("alternating_ontologies");
        out.case = Json::obj().set("kind", Json::s("two ontologies over the same term ids, queried alternately")).set("A", fa.to_json()).set("B", fb.to_json());
        let build = |f: &crate::facts::FactSet| crate::drive::via_builder(f, None, false);
        let mk_pc = |f: &crate::facts::FactSet, ont: Ontology, out: &mut CaseOut| {
            let model = Model::new(f, false);
            let obs = crate::observe::walk(&ont, &ids, &mut out.events);
            PairCase {
                sc: StateCase { view: f.clone(), facts: f.clone(), path: PathKind::BuilderMinimal, order: crate::drive::OrderMode::AsGiven, shape: "alt".into(), id_mode: "alt".into() },
                ont,
                obs,
                model,
                subset: None,
            }
        };
        // (1) A, then B in the SAME slot (same address), then A again: each judged by the ordinary oracle
        let mut slot: Option<PairCase> = None;
        let mut sweeps: Vec<BTreeMap<(u32, u32), String>> = Vec::new();
        for (round, f) in [&fa, &fb, &fa].into_iter().enumerate() {
            slot = None; // drop the previous ontology first so that its memory is reused
            let ont = match build(f) {
                Ok(o) => o,
                Err(e) => {
                    out.violate(self.prop, "construct_failed/builder_minimal", format!("{e}"));
                    return;
                }
            };
            slot = Some(mk_pc(f, ont, out));
            let pc = slot.as_ref().unwrap();
            match self.prop {
                "C11" => self.c11(pc, out),
                "C12" => self.c12b(pc, out),
                _ => self.c04(pc, out),
            }
            if round < 2 {
                let mut m = BTreeMap::new();
                for a in &ids {
                    for b in &ids {
                        m.insert((*a, *b), pair_fingerprint(self.prop, &pc.ont, *a, *b));
                    }
                }
                sweeps.push(m);
            }
        }
        drop(slot);
        // (2) both alive, alternating pair by pair
        let (oa, ob) = match (build(&fa), build(&fb)) {
            (Ok(a), Ok(b)) => (a, b),
            _ => return,
        };
        if self.prop == "C04" {
            // finest granularity: the same (pair, kind, algorithm) on A and then on B
            let score = |ont: &Ontology, a: u32, b: u32, i: usize| -> u32 {
                let (ta, tb) = (ont.hpo(a).expect("term"), ont.hpo(b).expect("term"));
                let k = KINDS[i / 8];
                let bi = match i % 8 {
                    0 => Builtins::GraphIc(k),
                    1 => Builtins::Resnik(k),
                    2 => Builtins::Lin(k),
                    3 => Builtins::Jc(k),
                    4 => Builtins::Relevance(k),
                    5 => Builtins::InformationCoefficient(k),
                    6 => Builtins::Distance(k),
                    _ => Builtins::Mutation(k),
                };
                bi.calculate(&ta, &tb).to_bits()
            };
            let parse = |s: &str| -> Vec<u32> { s.trim_matches(|c| c == '[' || c == ']').split(", ").filter_map(|x| x.parse().ok()).collect() };
            for a in &ids {
                for b in &ids {
                    let ea = parse(&sweeps[0][&(*a, *b)]);
                    let eb = parse(&sweeps[1][&(*a, *b)]);
                    for i in 0..24 {
                        for (which, ont, exp) in [(0usize, &oa, &ea), (1usize, &ob, &eb)] {
                            bump(&mut out.events, "alternating_query");
                            match guard(|| score(ont, *a, *b, i)) {
                                Ok(v) => out.check(v == exp[i], "C04", "answer_depends_on_earlier_calls", || {
                                    format!("score #{i} (kind {}, algorithm {}) of pair ({a},{b}) on ontology {} = {} when queried right after the other ontology, {} in a clean sweep", i / 8, i % 8, ["A", "B"][which], f32::from_bits(v), f32::from_bits(exp[i]))
                                }),
                                Err(p) => out.violate("C04", "panic:alternating_query", format!("({a},{b}): {}", p.message)),
                            }
                        }
                    }
                }
            }
        }
        for a in &ids {
            for b in &ids {
                for (which, ont) in [(0usize, &oa), (1usize, &ob)] {
                    bump(&mut out.events, "alternating_query");
                    let r = guard(|| pair_fingerprint(self.prop, ont, *a, *b));
                    match r {
                        Ok(fp) => out.check(fp == sweeps[which][&(*a, *b)], self.prop, "answer_depends_on_earlier_calls", || {
                            format!("pair ({a},{b}) on ontology {}: {fp} when queried alternately, {} in a clean sweep", ["A", "B"][which], sweeps[which][&(*a, *b)])
                        }),
                        Err(p) => out.violate(self.prop, "panic:alternating_query", format!("({a},{b}): {} at {}", p.message, p.location)),
                    }
                }
            }
        }
    }
}

impl Monitor for PairMonitor {
    fn id(&self) -> &'static str {
        self.prop
    }

    fn rule(&self) -> String {
        let what = match self.prop {
            "C11" => "distance_to_ancestor / path_to_ancestor / distance_to_term / path_to_term for ALL ordered pairs vs BFS distances on the model graph; paths validated edge by edge",
            "C12" => "part A: HpoGroup operation histories vs BTreeSet (see buckets groupops/*); part B: common/union ancestor queries and their iterator twins for ALL ordered pairs vs set algebra of the observed ancestor sets",
            _ => "all 8 built-in similarities x 3 kinds for ALL ordered pairs vs f64 formulas on the observed ancestor sets / IC / link sets / BFS distance; symmetry, finiteness, special cases, Builtins dispatch",
        };
        format!(
            "A case = one generated ontology (<= 64 terms, number of distinct upward chains between two terms capped because the library's path recursion is not memoised); {what}. \
             Distinct = distinct (fact content, path, order) hash; non-trivial = >= 4 terms, >= 3 edges."
        )
    }

    fn assumptions(&self) -> Vec<String> {
        let mut v = vec![
            "acyclic graphs; chain count between any two terms <= 300 (quick) / 2000 (thorough)".to_string(),
        ];
        match self.prop {
            "C04" => {
                v.push("f32 scores compared with an f64 oracle at 1e-4*max(1,|v|)".into());
                v.push("GraphIC union: both readings of the self-contradictory all_union_ancestors documentation are accepted, but only one per run".into());
            }
            "C12" => v.push("all_union_ancestor_ids: both documented readings accepted, one per run".into()),
            _ => v.push("path_to_term(a,a) is not judged (documented to return [a])".into()),
        }
        v
    }

    fn plan(&self, tier: Tier) -> Vec<String> {
        let mut v = Vec::new();
        if self.prop == "C12" {
            v.extend(super::group::plan(tier));
        }
        v.push("real:0".to_string());
        if self.prop != "C12" {
            v.push("manyterms:0".to_string());
        }
        if self.prop == "C04" {
            v.push("manyrec:0".to_string());
        }
        for i in 0..tier.pick(60, 3000) {
            v.push(format!("alt:{i}"));
        }
        for i in 0..tier.pick(40, 1500) {
            v.push(format!("subont:{i}"));
        }
        v.extend(catalogue_labels());
        if self.prop == "C11" {
            for i in 0..12 {
                v.push(format!("shortcut:{i}"));
            }
            for i in 0..tier.pick(2, 12) {
                v.push(format!("long:{i}"));
            }
        }
        let n = match self.prop {
            "C04" => tier.pick(500, 20_000),
            "C11" => tier.pick(1500, 60_000),
            _ => tier.pick(1200, 50_000),
        };
        for i in 0..n {
            v.push(format!("rnd:{i}"));
        }
        v
    }

    fn mandatory_buckets(&self, tier: Tier) -> Vec<String> {
        let v: Vec<&str> = match self.prop {
            "C11" => vec![
                "pair/same",
                "pair/other_is_ancestor",
                "pair/other_is_descendant",
                "pair/related",
                "pair/disconnected",
                "shorter_route_over_higher_common_ancestor",
                "diamond_with_tie",
                "chain_longer_than_256_links",
            ],
            "C12" => {
                let mut v = vec!["pair_ancestor_descendant", "pair_same_term", "all_union_reading_excludes_terms|all_union_reading_includes_terms"];
                v.extend(super::group::mandatory(tier));
                v
            }
            _ => vec![
                "kind_with_zero_records",
                "pair_without_common_ancestor",
                "distinct_pair_without_annotations",
                "pair_with_one_zero_ic",
                "more_than_65535_records_on_two_terms_together",
                "information_content_below_1e-4",
            ],
        };
        let mut v: Vec<String> = v.into_iter().filter(|s| !s.contains('|')).map(str::to_string).collect();
        v.push("alternating_ontologies".to_string());
        v.push("path/sub_ontology".to_string());
        if self.prop != "C12" {
            v.push("more_than_65535_terms".to_string());
        }
        v
    }

    fn finish(&self, buckets: &BTreeMap<String, u64>) -> Vec<Violation> {
        let mut v = Vec::new();
        let g = |k: &str| buckets.get(k).copied().unwrap_or(0);
        if self.prop == "C12" && g("all_union_reading_excludes_terms") > 0 && g("all_union_reading_includes_terms") > 0 {
            v.push(Violation {
                signature: "C12/all_union_reading_inconsistent".into(),
                detail: format!(
                    "all_union_ancestor_ids excluded the terms themselves for {} pairs and included them for {} pairs",
                    g("all_union_reading_excludes_terms"),
                    g("all_union_reading_includes_terms")
                ),
            });
        }
        if self.prop == "C04" && g("graphic_union_excludes_terms") > 0 && g("graphic_union_includes_terms") > 0 {
            v.push(Violation {
                signature: "C04/graphic_union_reading_inconsistent".into(),
                detail: "GraphIC used the union without the terms for some pairs and with them for others".into(),
            });
        }
        v
    }

    fn extra_coverage(&self, tier: Tier, buckets: &BTreeMap<String, u64>) -> Vec<(String, Json)> {
        if self.prop == "C12" {
            return super::group::extra_coverage(tier, buckets);
        }
        vec![]
    }

    fn run_case(&self, label: &str, seed: u64, tier: Tier) -> CaseOut {
        let mut out = CaseOut::new();
        let mut rng = Rng::for_case(seed, self.prop, label);
        if self.prop == "C12" && label.starts_with("grp") {
            super::group::run_case(label, &mut rng, tier, &mut out);
            return out;
        }
        if label.starts_with("alt:") {
            self.alternating_case(&mut rng, tier, &mut out);
            return out;
        }
        let pc = if label.starts_with("shortcut") {
            // the quantifier's named pattern: b is an ancestor of a by a long chain while a shorter
            // route exists over a higher common ancestor
            let i: u32 = label.split(':').nth(1).unwrap().parse().unwrap();
            let chain = 2 + (i % 4) as usize; // a -> x1 .. -> b has chain+1 steps
            let mut f = crate::facts::FactSet::default();
            let base = 10 + i * 7;
            let a = base;
            let c = base + 1;
            let b = base + 2;
            let mut ids = vec![a, c, b];
            let mut edges = vec![(a, c), (b, c)];
            let mut prev = a;
            for j in 0..chain {
                let x = base + 3 + j as u32;
                ids.push(x);
                edges.push((prev, x));
                prev = x;
            }
            edges.push((prev, b));
            if i % 3 == 0 {
                // extra level above the common ancestor
                ids.push(base + 90);
                edges.push((c, base + 90));
            }
            for id in ids {
                f.terms.push(crate::facts::TermFact { id, name: format!("t{id}"), obsolete: false, replaced_by: None });
            }
            f.edges = edges;
            let sc = StateCase {
                view: f.clone(),
                facts: f,
                path: PathKind::BuilderMinimal,
                order: crate::drive::OrderMode::AsGiven,
                shape: "ancestor_with_shortcut".into(),
                id_mode: "fixed".into(),
            };
            let ont = match construct(&sc.view, sc.path, &mut rng, self.prop) {
                Ok(o) => o,
                Err(e) => {
                    out.violate(self.prop, "construct_failed/builder_minimal", format!("{e}"));
                    return out;
                }
            };
            let model = Model::new(&sc.view, false);
            let ids: Vec<u32> = sc.view.terms.iter().map(|t| t.id).collect();
            let obs = crate::observe::walk(&ont, &ids, &mut out.events);
            PairCase { sc, ont, obs, model, subset: None }
        } else if label.starts_with("long") {
            // chains of more than 256 links (distances that do not fit a byte), with a side branch near
            // the top so that related pairs have a far-away common ancestor
            let i: u32 = label.split(':').nth(1).unwrap().parse().unwrap();
            let len = 258 + (i as usize % 3) * 40 + rng.urange(0, 30);
            let id_of = |j: usize| -> u32 { if j == 0 { 1 } else if j == 1 { 118 } else { 200 + (j as u32) * 3 + (i % 2) } };
            let mut f = crate::facts::FactSet::default();
            for j in 0..=len {
                f.terms.push(crate::facts::TermFact { id: id_of(j), name: format!("c{j}"), obsolete: false, replaced_by: None });
                if j > 0 {
                    f.edges.push((id_of(j), id_of(j - 1)));
                }
            }
            let branch_at = rng.urange(0, 12);
            let (s1, s2) = (5_000_000u32, 5_000_001u32);
            f.terms.push(crate::facts::TermFact { id: s1, name: "s1".into(), obsolete: false, replaced_by: None });
            f.terms.push(crate::facts::TermFact { id: s2, name: "s2".into(), obsolete: false, replaced_by: None });
            f.edges.push((s1, id_of(branch_at)));
            f.edges.push((s2, s1));
            let mut subset: BTreeSet<u32> = [0, 1, branch_at, branch_at + 1, len - 257, len - 256, len - 255, len - 1, len].iter().map(|j| id_of(*j)).collect();
            subset.insert(s1);
            subset.insert(s2);
            for _ in 0..6 {
                subset.insert(id_of(rng.urange(0, len)));
            }
            let sc = StateCase {
                view: f.clone(),
                facts: f,
                path: if rng.chance(1, 2) { PathKind::BuilderMinimal } else { PathKind::BytesV2 },
                order: crate::drive::OrderMode::AsGiven,
                shape: format!("chain of {len} links with a side branch"),
                id_mode: "fixed".into(),
            };
            let ont = match construct(&sc.view, sc.path, &mut rng, self.prop) {
                Ok(o) => o,
                Err(e) => {
                    out.violate(self.prop, &format!("construct_failed/{}", sc.path.name()), format!("{e}"));
                    return out;
                }
            };
            let model = Model::new(&sc.view, false);
            let ids: Vec<u32> = sc.view.terms.iter().map(|t| t.id).collect();
            let obs = crate::observe::walk(&ont, &ids, &mut out.events);
            out.bucket("chain_longer_than_256_links");
            out.case = case_json(&sc);
            PairCase { sc, ont, obs, model, subset: Some(subset.into_iter().collect()) }
        } else if label.starts_with("subont") {
            // the pair queries on a sub-ontology (one more way an ontology comes into being): judged against
            // the sub-ontology's own direct parents
            let defaults = rng.chance(1, 2);
            let cfg = crate::gen::GenCfg {
                n_min: 5,
                n_max: 30,
                defaults,
                max_paths: Some(300),
                ..crate::gen::GenCfg::default()
            };
            let facts = crate::gen::gen_facts(&mut rng, &cfg).builder_view();
            let m0 = Model::new(&facts, defaults);
            let cands: Vec<u32> = m0.ids.iter().copied().filter(|t| m0.desc[t].len() >= 2).collect();
            if cands.is_empty() {
                out.bucket("sub_source_without_edges");
                return out;
            }
            let root = *rng.pick(&cands);
            let below: Vec<u32> = m0.desc[&root].iter().copied().collect();
            let leaves: Vec<u32> = (0..rng.urange(1, 5)).map(|_| *rng.pick(&below)).collect();
            let src = match crate::drive::via_builder(&facts, None, defaults) {
                Ok(o) => o,
                Err(e) => {
                    out.violate(self.prop, "construct_failed/sub_source", format!("{e}"));
                    return out;
                }
            };
            let sub = crate::observe::guard(|| {
                let r = src.hpo(root).expect("root");
                let ls: Vec<HpoTerm> = leaves.iter().map(|l| src.hpo(*l).expect("leaf")).collect();
                src.sub_ontology(r, ls).map_err(|e| e.to_string())
            });
            let ont = match sub {
                Ok(Ok(o)) => o,
                Ok(Err(e)) => {
                    out.violate(self.prop, "construct_failed/sub_ontology", format!("sub_ontology({root}, {leaves:?}) = Err({e})"));
                    return out;
                }
                Err(p) => {
                    out.violate(self.prop, "construct_panic/sub_ontology", format!("{} at {}", p.message, p.location));
                    return out;
                }
            };
            let obs = crate::observe::walk(&ont, &[], &mut out.events);
            let mut own = crate::facts::FactSet::default();
            for (id, t) in &obs.terms {
                own.terms.push(crate::facts::TermFact { id: *id, name: t.name.clone(), obsolete: false, replaced_by: None });
                for p in &t.parents {
                    if obs.terms.contains_key(p) {
                        own.edges.push((*id, *p));
                    }
                }
            }
            for k in 0..3 {
                for (rid, r) in &obs.recs[k] {
                    own.recs[k].push(crate::facts::RecFact { id: *rid, name: r.name.clone(), terms: r.terms.clone() });
                }
            }
            let model = Model::new(&own, false);
            out.bucket("path/sub_ontology");
            let sc = StateCase {
                view: own.clone(),
                facts: own,
                path: PathKind::BuilderMinimal,
                order: crate::drive::OrderMode::AsGiven,
                shape: format!("sub_ontology({root}, {leaves:?})"),
                id_mode: "source".into(),
            };
            out.case = Json::obj().set("path", Json::s("sub_ontology")).set("root", Json::u(u64::from(root))).set("leaves", Json::arr_u32(&leaves)).set("source_facts", facts.to_json());
            let ids: Vec<u32> = obs.terms.keys().copied().collect();
            PairCase { sc, ont, obs, model, subset: Some(ids) }
        } else if label.starts_with("manyterms") {
            // more terms than a 16-bit index can address; the terms that are queried are added LAST
            let mut f = crate::facts::FactSet::default();
            let mk = |id: u32, name: String| crate::facts::TermFact { id, name, obsolete: false, replaced_by: None };
            f.terms.push(mk(1, "root".into()));
            f.terms.push(mk(118, "phenotype".into()));
            f.edges.push((118, 1));
            let n_fill = 65_530 + rng.range(0, 200) as u32;
            for i in 0..n_fill {
                let id = 1000 + i * 2;
                f.terms.push(mk(id, String::new()));
                f.edges.push((id, 118));
            }
            // a small multi-parent region at the end: 9_000_001 <- {2,3} <- 4 <- 5, shortcut 5 -> 9_000_001
            let b = 9_000_000u32;
            for j in 1..=5u32 {
                f.terms.push(mk(b + j, format!("late {j}")));
            }
            f.edges.extend([(b + 1, 118), (b + 2, b + 1), (b + 3, b + 1), (b + 4, b + 2), (b + 4, b + 3), (b + 5, b + 4), (b + 5, b + 1)]);
            let path = if rng.chance(1, 2) { PathKind::BuilderMinimal } else { PathKind::BytesV2 };
            let built = match path {
                PathKind::BuilderMinimal => crate::drive::via_builder(&f, None, false),
                _ => crate::drive::via_bytes(&f, 2).1,
            };
            let ont = match built {
                Ok(o) => o,
                Err(e) => {
                    out.violate(self.prop, &format!("construct_failed/{}", path.name()), format!("{e}"));
                    return out;
                }
            };
            let model = Model::new(&f, false);
            let ids: Vec<u32> = f.terms.iter().map(|t| t.id).collect();
            let obs = crate::observe::walk(&ont, &ids, &mut out.events);
            out.bucket("more_than_65535_terms");
            out.case = Json::obj().set("kind", Json::s("many terms")).set("terms", Json::us(ids.len())).set("path", Json::s(path.name()));
            let subset: Vec<u32> = vec![1, 118, 1000, 1000 + 2 * (n_fill - 1), b + 1, b + 2, b + 3, b + 4, b + 5];
            let sc = StateCase {
                view: crate::facts::FactSet::default(),
                facts: crate::facts::FactSet::default(),
                path,
                order: crate::drive::OrderMode::AsGiven,
                shape: "65 5xx filler terms, queried region added last".into(),
                id_mode: "fixed".into(),
            };
            PairCase { sc, ont, obs, model, subset: Some(subset) }
        } else if label.starts_with("manyrec") {
            match many_records_case(&mut rng, &mut out) {
                Some(pc) => pc,
                None => return out,
            }
        } else if label.starts_with("real") {
            match real_pair_case(&mut rng, &mut out) {
                Some(pc) => pc,
                None => return out,
            }
        } else {
            // keep pairwise cases moderate: regenerate with a smaller bound if needed
            let mut lbl = label.to_string();
            let mut tries = 0;
            loop {
                let mut r = Rng::for_case(seed, self.prop, &lbl);
                let cap = tier.pick(300, 2000);
                let sc = state_case_from_label(label, &mut r, Tier::Quick, true, Some(cap));
                if sc.view.terms.len() <= 90 || tries > 20 {
                    let built = construct(&sc.view, sc.path, &mut r, self.prop);
                    let ont = match built {
                        Ok(o) => o,
                        Err(e) => {
                            out.case = case_json(&sc);
                            out.violate(self.prop, &format!("construct_failed/{}", sc.path.name()), format!("valid facts rejected: {e}"));
                            return out;
                        }
                    };
                    let model = Model::new(&sc.view, sc.path.has_defaults());
                    let ids: Vec<u32> = sc.view.terms.iter().map(|t| t.id).collect();
                    let obs = crate::observe::walk(&ont, &ids, &mut out.events);
                    break PairCase { sc, ont, obs, model, subset: None };
                }
                tries += 1;
                lbl = format!("{label}#{tries}");
            }
        };
        if pc.subset.is_some() {
            out.sig = crate::rng::hash_u64s(&pc.ids().iter().map(|x| u64::from(*x)).collect::<Vec<_>>());
            out.nontrivial = true;
        } else {
            out.sig = crate::rng::hash_u64s(&[pc.sc.facts.content_hash(), pc.sc.path as u64, pc.sc.order as u64]);
            out.nontrivial = pc.sc.view.terms.len() >= 4 && pc.sc.view.edges.len() >= 3;
            out.case = case_json(&pc.sc);
        }
        out.bucket(&format!("path/{}", pc.sc.path.name()));
        structural_buckets(&pc.model, &mut out);
        // a panic inside the walk is not this monitor's business, but it would make pair queries meaningless
        if !pc.obs.panics.is_empty() {
            out.bucket("walk_panics_seen");
        }
        match self.prop {
            "C11" => self.c11(&pc, &mut out),
            "C12" => self.c12b(&pc, &mut out),
            _ => self.c04(&pc, &mut out),
        }
        let n = pc.ids().len() as u64;
        out.bucket_n("ordered_pairs", n * n);
        out
    }
}
