//! Metamorphic monitors: C07 (binary round trip), C09 (JAX text loaders), C16 (order independence).

use super::common::*;
use crate::drive::{self, BuildFail, OrderMode};
use crate::facts::{FactSet, RecFact, TermFact};
use crate::gen::{GenCfg, NameMode};
use crate::jax::{jax_view, JaxOpts};
use crate::json::Json;
use crate::model::Model;
use crate::observe::{self, bump, guard, Diff, Obs};
use crate::rng::{hash_u64s, Rng};
use crate::runner::{CaseOut, Monitor, Tier};
use hpo::Ontology;

pub struct MetaMonitor {
    pub prop: &'static str,
}

fn report(prop: &str, what: &str, diffs: &[Diff], out: &mut CaseOut) {
    for d in diffs {
        out.violate(prop, &format!("{what}/{}", d.site), d.detail.clone());
    }
}

/// string of `n` bytes built from ASCII with `tail` appended so that the multi-byte character
/// straddles (or touches) byte 255
fn long_name(prefix_len: usize, ch: &str, suffix_len: usize) -> String {
    let mut s = "a".repeat(prefix_len);
    s.push_str(ch);
    s.push_str(&"z".repeat(suffix_len));
    s
}

/// acceptable reload of a name that exceeds 255 bytes: a prefix of 252..=255 bytes
fn truncated_ok(original: &str, reloaded: &str) -> bool {
    if original.len() <= 255 {
        return original == reloaded;
    }
    original.starts_with(reloaded) && reloaded.len() <= 255 && reloaded.len() >= 252
}

impl MetaMonitor {
    // ------------------------------------------------------------------------------------- C07
    fn compare_empty(&self, a: &Ontology, b: &Ontology, what: &str, out: &mut CaseOut) {
        bump(&mut out.events, "Ontology::compare");
        let r = guard(|| {
            let c = a.compare(b);
            vec![
                ("added_hpo_terms", c.added_hpo_terms().len()),
                ("removed_hpo_terms", c.removed_hpo_terms().len()),
                ("changed_hpo_terms", c.changed_hpo_terms().len()),
                ("added_genes", c.added_genes().len()),
                ("removed_genes", c.removed_genes().len()),
                ("changed_genes", c.changed_genes().len()),
                ("added_omim_diseases", c.added_omim_diseases().len()),
                ("removed_omim_diseases", c.removed_omim_diseases().len()),
                ("changed_omim_diseases", c.changed_omim_diseases().len()),
                ("added_orpha_diseases", c.added_orpha_diseases().len()),
                ("removed_orpha_diseases", c.removed_orpha_diseases().len()),
                ("changed_orpha_diseases", c.changed_orpha_diseases().len()),
            ]
        });
        match r {
            Ok(v) => {
                for (name, n) in v {
                    out.check(n == 0, self.prop, &format!("{what}/compare_{name}"), || format!("compare() with the round trip reports {n} {name}"));
                }
            }
            Err(p) => out.violate(self.prop, &format!("{what}/panic:compare"), format!("{} at {}", p.message, p.location)),
        }
    }

    fn roundtrip(&self, ont: &Ontology, ids: &[u32], label: &str, out: &mut CaseOut) {
        let before = observe::walk(ont, ids, &mut out.events);
        bump(&mut out.events, "Ontology::as_bytes");
        let bytes = match drive::as_bytes(ont) {
            Ok(b) => b,
            Err(p) => {
                out.violate("C07", "as_bytes_panics", format!("{} at {}", p.message, p.location));
                return;
            }
        };
        bump(&mut out.events, "Ontology::from_bytes");
        let reloaded = match drive::from_bytes(&bytes) {
            Ok(o) => o,
            Err(BuildFail::Err(e)) => {
                out.violate("C07", &format!("reload_rejected/{label}"), format!("from_bytes(as_bytes()) = Err({e})"));
                return;
            }
            Err(BuildFail::Panic(p)) => {
                out.violate("C07", &format!("reload_panics/{label}"), format!("from_bytes(as_bytes()) panicked: {} at {}", p.message, p.location));
                return;
            }
        };
        // the file-based entry point on a path that is overwritten: a second file of the same length
        // (one ASCII letter of the first term name changed) must be what the second load returns
        if bytes.len() > 22 && &bytes[0..3] == b"HPO" && crate::rng::hash_bytes(&bytes) % 4 == 0 {
            let name_len = bytes[20] as usize;
            if name_len > 0 && bytes.len() > 21 + name_len {
                if let Some(off) = (21..21 + name_len).find(|i| bytes[*i].is_ascii_alphabetic()) {
                    let mut second = bytes.clone();
                    second[off] ^= 0x20; // toggles the case of an ASCII letter
                    let tid = u32::from_be_bytes([bytes[16], bytes[17], bytes[18], bytes[19]]);
                    if let Some((a, b)) = drive::from_binary_twice_same_path(&bytes, &second) {
                        bump(&mut out.events, "Ontology::from_binary (same path, new content)");
                        out.bucket("same_path_loaded_twice_with_new_content");
                        match (a, b) {
                            (Ok(oa), Ok(ob)) => {
                                let na = oa.hpo(tid).map(|t| t.name().as_bytes().to_vec());
                                let nb = ob.hpo(tid).map(|t| t.name().as_bytes().to_vec());
                                let ea = bytes[21..21 + name_len].to_vec();
                                let eb = second[21..21 + name_len].to_vec();
                                out.check(na.as_deref() == Some(&ea[..]) && nb.as_deref() == Some(&eb[..]), "C07", "from_binary_returns_earlier_file", || {
                                    format!("term {tid}: first file holds {:?}, second file (same path, same length) holds {:?}; loaded {:?} and {:?}", String::from_utf8_lossy(&ea), String::from_utf8_lossy(&eb), na.map(|n| String::from_utf8_lossy(&n).to_string()), nb.map(|n| String::from_utf8_lossy(&n).to_string()))
                                });
                            }
                            (a, b) => {
                                for r in [a, b] {
                                    if let Err(e) = r {
                                        out.violate("C07", &format!("reload_rejected/{label}"), format!("from_binary(file written from as_bytes()) failed: {e}"));
                                    }
                                }
                            }
                        }
                    }
                }
            }
        }
        let after = observe::walk(&reloaded, ids, &mut out.events);
        // names above the documented limit may come back trimmed
        let mut expected = before.clone();
        let mut any_long = false;
        for (id, t) in &mut expected.terms {
            if t.name.len() > 255 {
                any_long = true;
                out.bucket("term_name_over_255_bytes");
                if let Some(o) = after.terms.get(id) {
                    let ok = truncated_ok(&t.name, &o.name);
                    out.check(ok, "C07", "term_name_truncation", || {
                        format!("term {id}: name of {} bytes reloaded as {} bytes {:?}…", t.name.len(), o.name.len(), &o.name.chars().rev().take(4).collect::<String>())
                    });
                    t.name = o.name.clone();
                }
            }
        }
        for (id, r) in &mut expected.recs[0] {
            if r.name.len() > 255 {
                any_long = true;
                out.bucket("gene_name_over_255_bytes");
                if let Some(o) = after.recs[0].get(id) {
                    let ok = truncated_ok(&r.name, &o.name);
                    out.check(ok, "C07", "gene_name_truncation", || format!("gene {id}: name of {} bytes reloaded as {} bytes", r.name.len(), o.name.len()));
                    r.name = o.name.clone();
                }
            }
        }
        for k in 1..3 {
            if expected.recs[k].values().any(|r| r.name.len() > 255) {
                out.bucket("disease_name_over_255_bytes");
            }
        }
        // the source ontology may have been built without defaults; the reload always has them
        let mut diffs = Vec::new();
        observe::diff(&expected, &after, &mut diffs, &mut out.comparisons);
        report("C07", label, &diffs, out);
        if !any_long {
            self.compare_empty(ont, &reloaded, label, out);
            self.compare_empty(&reloaded, ont, label, out);
        }
        // second generation must be byte-stable in content too
        if let Ok(b2) = drive::as_bytes(&reloaded) {
            if let Ok(o3) = drive::from_bytes(&b2) {
                let third = observe::walk(&o3, ids, &mut out.events);
                let mut d2 = Vec::new();
                observe::diff(&after, &third, &mut d2, &mut out.comparisons);
                report("C07", &format!("{label}_second_generation"), &d2, out);
            } else {
                out.violate("C07", "second_generation_rejected", "from_bytes(as_bytes(reloaded)) failed".into());
            }
        }
    }

    fn c07_catalogue(&self, idx: usize, rng: &mut Rng) -> (FactSet, PathKind, String) {
        let mut f = FactSet::default();
        f.version = (2025, 12, 31);
        let mut add = |f: &mut FactSet, id: u32, name: String, parent: Option<u32>| {
            f.terms.push(TermFact { id, name, obsolete: false, replaced_by: None });
            if let Some(p) = parent {
                f.edges.push((id, p));
            }
        };
        add(&mut f, 1, "All".into(), None);
        add(&mut f, 118, "Phenotypic abnormality".into(), Some(1));
        let chars = ["é", "€", "😀"];
        let desc;
        let mut path = PathKind::BuilderDefaults;
        match idx {
            0..=2 => {
                // ASCII names of exactly 254/255/256 bytes for a term and a gene
                let n = 254 + idx;
                add(&mut f, 200, "n".repeat(n), Some(118));
                f.recs[0].push(RecFact { id: 7, name: "G".repeat(n), terms: vec![200] });
                f.recs[1].push(RecFact { id: 7, name: "D".repeat(n + 300), terms: vec![200] });
                desc = format!("ascii names of {n} bytes");
            }
            3..=11 => {
                // a 2/3/4-byte character straddling byte 255 of a term name
                let ch = chars[(idx - 3) % 3];
                let start = 255 - 1 - ((idx - 3) / 3) % ch.len().max(1); // character begins before byte 255 and ends after it
                let start = start.min(254);
                add(&mut f, 200, long_name(start, ch, 10), Some(118));
                f.recs[0].push(RecFact { id: 9, name: "GENE".into(), terms: vec![200] });
                desc = format!("term name with {ch:?} starting at byte {start}");
            }
            12..=20 => {
                let ch = chars[(idx - 12) % 3];
                let start = (255 - 1 - ((idx - 12) / 3) % ch.len().max(1)).min(254);
                add(&mut f, 200, "short".into(), Some(118));
                f.recs[0].push(RecFact { id: 9, name: long_name(start, ch, 10), terms: vec![200] });
                desc = format!("gene name with {ch:?} starting at byte {start}");
            }
            21 => {
                // character ending exactly at byte 255 (no cut needed) and starting exactly at 255
                add(&mut f, 200, long_name(253, "é", 0), Some(118));
                add(&mut f, 201, long_name(255, "é", 0), Some(118));
                add(&mut f, 202, long_name(252, "€", 5), Some(118));
                desc = "characters ending at / starting at byte 255".into();
            }
            22 => {
                // empty sections, records without terms
                f.recs[0].push(RecFact { id: 1, name: "G1".into(), terms: vec![] });
                f.recs[2].push(RecFact { id: 1, name: "orpha only".into(), terms: vec![] });
                desc = "records without terms, empty omim section".into();
            }
            23 => {
                desc = "no annotations at all (empty sections)".into();
            }
            24 => {
                // border ids
                add(&mut f, 0, "zero".into(), Some(118));
                add(&mut f, 9_999_999, "max".into(), Some(0));
                f.recs[0].push(RecFact { id: u32::MAX, name: "GMAX".into(), terms: vec![0, 9_999_999] });
                f.recs[1].push(RecFact { id: u32::MAX, name: "omim max".into(), terms: vec![9_999_999] });
                f.recs[2].push(RecFact { id: 0, name: "orpha zero".into(), terms: vec![0] });
                desc = "ids 0, 9_999_999, record ids 0 and u32::MAX".into();
            }
            25 => {
                // obsolete / replaced terms, replacement ids anywhere in u32 (through the v3 path)
                path = PathKind::BytesV3;
                add(&mut f, 300, "obsolete a".into(), None);
                add(&mut f, 301, "obsolete b".into(), None);
                add(&mut f, 302, "not obsolete but replaced".into(), Some(118));
                f.terms[2].obsolete = true;
                f.terms[2].replaced_by = Some(118);
                f.terms[3].obsolete = true;
                f.terms[3].replaced_by = Some(u32::MAX);
                f.terms[4].replaced_by = Some(9_999_999);
                desc = "obsolete and replaced terms, replacement ids up to u32::MAX".into();
            }
            26 => {
                // long names with flags through the obo path
                path = PathKind::Jax;
                add(&mut f, 300, long_name(254, "é", 3), None);
                f.terms[2].obsolete = true;
                f.terms[2].replaced_by = Some(118);
                f.recs[1].push(RecFact { id: 3, name: format!("{} ü", "x".repeat(400)), terms: vec![118] });
                desc = "over-long obsolete term name via hp.obo".into();
            }
            _ => {
                let c = GenCfg { defaults: true, flags: false, ..GenCfg::default() };
                f = crate::gen::gen_facts(rng, &c);
                desc = "random".into();
            }
        }
        (f, path, desc)
    }

    fn c07_shipped(&self, name: &str, out: &mut CaseOut) {
        let (_v, view, bytes) = match shipped_facts(name) {
            Ok(x) => x,
            Err(e) => {
                out.inconclusive = Some(format!("shipped file {name}: {e}"));
                return;
            }
        };
        out.bucket(&format!("shipped/{name}"));
        out.sig = crate::rng::hash_bytes(name.as_bytes());
        out.nontrivial = true;
        out.case = Json::obj().set("shipped_file", Json::s(name)).set("facts", view.summary());
        match drive::from_bytes(&bytes) {
            Ok(ont) => {
                let ids: Vec<u32> = view.terms.iter().map(|t| t.id).collect();
                self.roundtrip(&ont, &ids, "shipped", out);
            }
            Err(_) => out.bucket("source_construction_failed"),
        }
    }

    fn c07_case(&self, label: &str, rng: &mut Rng, tier: Tier, out: &mut CaseOut) {
        if let Some(i) = label.strip_prefix("real:") {
            self.c07_shipped(SHIPPED_FILES[i.parse::<usize>().unwrap() % SHIPPED_FILES.len()], out);
            return;
        }
        let (facts, path, desc) = if let Some(i) = label.strip_prefix("long:") {
            self.c07_catalogue(i.parse().unwrap(), rng)
        } else {
            let mut sc = state_case_from_label(label, rng, tier, true, None);
            // every path that yields an ontology with the two root terms
            if sc.path == PathKind::BuilderMinimal {
                sc.path = PathKind::BuilderDefaults;
                let c = GenCfg { defaults: true, n_max: 30, ..GenCfg::default() };
                sc.facts = crate::gen::gen_facts(rng, &c);
            }
            if sc.path == PathKind::RoundTrip {
                sc.path = PathKind::BytesV3;
            }
            // occasionally over-long names on random ontologies (Builder / obo can carry them)
            if matches!(sc.path, PathKind::BuilderDefaults | PathKind::Jax | PathKind::JaxTransitive) && rng.chance(1, 4) {
                let i = rng.usize_below(sc.facts.terms.len());
                if sc.facts.terms[i].id != 1 && sc.facts.terms[i].id != 118 {
                    let ch = *rng.pick(&["é", "€", "😀", "b"]);
                    let start = rng.urange(250, 256);
                    let extra = rng.urange(0, 30);
                    sc.facts.terms[i].name = long_name(start, ch, extra);
                }
            }
            (sc.facts, sc.path, format!("{} {}", sc.shape, sc.id_mode))
        };
        let mut facts = facts;
        if matches!(path, PathKind::Jax | PathKind::JaxTransitive) {
            jaxable(&mut facts);
        }
        let view = view_for(&facts, path);
        out.sig = hash_u64s(&[view.content_hash(), path as u64]);
        out.nontrivial = view.terms.len() >= 3;
        out.case = Json::obj().set("description", Json::s(desc)).set("path", Json::s(path.name())).set("facts", facts.to_json());
        out.bucket(&format!("source_path/{}", path.name()));
        let ont = match construct(&view, path, rng, "C07") {
            Ok(o) => o,
            Err(e) => {
                // building the source is another property's business; without a source there is nothing to round-trip
                out.bucket("source_construction_failed");
                out.inconclusive = None;
                out.case.put("source_error", Json::s(e.to_string()));
                return;
            }
        };
        let ids: Vec<u32> = view.terms.iter().map(|t| t.id).collect();
        if view.terms.iter().any(|t| t.obsolete) {
            out.bucket("obsolete_term");
        }
        if view.terms.iter().any(|t| t.replaced_by.is_some()) {
            out.bucket("replaced_term");
        }
        if view.recs.iter().any(|r| r.iter().any(|x| x.terms.is_empty())) {
            out.bucket("record_without_terms");
        }
        if view.recs.iter().any(Vec::is_empty) {
            out.bucket("empty_annotation_section");
        }
        if view.terms.iter().any(|t| !t.name.is_ascii()) {
            out.bucket("multibyte_name");
        }
        self.roundtrip(&ont, &ids, path.name(), out);
    }

    // ------------------------------------------------------------------------------------- C09
    fn c09_case(&self, label: &str, rng: &mut Rng, tier: Tier, out: &mut CaseOut) {
        let idx: u64 = label.split(':').nth(1).unwrap().parse().unwrap_or(0);
        let cfg = GenCfg {
            n_min: 2,
            n_max: if rng.chance(1, 6) { tier.pick(60, 120) } else { 30 },
            defaults: true,
            flags: idx % 4 != 0,
            names: NameMode::Mixed,
            empty_recs: false,
            ..GenCfg::default()
        };
        let mut facts = crate::gen::gen_facts(rng, &cfg);
        jaxable(&mut facts);
        let mut facts = drive::permute(&facts, OrderMode::Shuffled, rng);
        // hp.obo has no limit on the length of a name (the binary format has): a sixth of the cases
        // carry term names beyond 255 bytes, also made of multi-byte characters
        if rng.chance(1, 6) {
            for _ in 0..rng.urange(1, 2) {
                let i = rng.usize_below(facts.terms.len());
                let unit = *rng.pick(&["long name ", "漢字の名前", "längerer Name "]);
                facts.terms[i].name = format!("{} {}", unit.repeat(rng.urange(30, 60)), facts.terms[i].id).trim().to_string();
            }
            out.bucket("term_name_over_255_bytes");
        }
        // ... and a fifth carry a term whose name is the empty string
        if rng.chance(1, 5) {
            let i = rng.usize_below(facts.terms.len());
            facts.terms[i].name = String::new();
            out.bucket("term_with_empty_name");
        }
        let long_names = facts.terms.iter().any(|t| t.name.len() > 255);
        let view = jax_view(&facts);
        let transitive = idx % 2 == 1;
        let opts = JaxOpts { shuffle: true, noise: idx % 5 != 0, gene_header_style: (idx % 3) as u8 };
        out.sig = hash_u64s(&[view.content_hash(), u64::from(transitive), u64::from(opts.noise), u64::from(opts.gene_header_style)]);
        out.nontrivial = view.terms.len() >= 3 && !view.edges.is_empty();
        out.case = Json::obj()
            .set("loader", Json::s(if transitive { "from_standard_transitive" } else { "from_standard" }))
            .set("noise_rows", Json::Bool(opts.noise))
            .set("gene_header_style", Json::u(u64::from(opts.gene_header_style)))
            .set("facts", facts.to_json());
        out.bucket(if transitive { "loader/transitive" } else { "loader/standard" });
        out.bucket(&format!("gene_header_style/{}", opts.gene_header_style));
        if opts.noise {
            out.bucket("noise_rows");
        }
        if view.terms.iter().any(|t| t.name.contains(": ")) {
            out.bucket("name_with_colon_space");
        }
        if view.terms.iter().any(|t| !t.name.is_ascii()) {
            out.bucket("non_ascii_name");
        }
        if view.terms.iter().any(|t| t.obsolete) {
            out.bucket("obsolete_stanza");
        }
        if view.terms.iter().any(|t| t.replaced_by.is_some()) {
            out.bucket("replaced_by_tag");
        }
        {
            let o: std::collections::BTreeSet<u32> = view.recs[1].iter().map(|r| r.id).collect();
            if view.recs[2].iter().any(|r| o.contains(&r.id)) {
                out.bucket("omim_orpha_share_numeric_id");
            }
        }
        bump(&mut out.events, if transitive { "Ontology::from_standard_transitive" } else { "Ontology::from_standard" });
        let ont = match drive::via_jax(&view, rng, &opts, transitive, "c09") {
            Ok(o) => o,
            Err(e) => {
                let kind = if matches!(e, BuildFail::Panic(_)) { "load_panics" } else { "load_rejected" };
                out.violate("C09", &format!("{kind}/{}", if transitive { "transitive" } else { "standard" }), format!("valid JAX files: {e}"));
                return;
            }
        };
        let (_m, obs, diffs) = walk_and_diff(&view, true, &ont, out);
        report("C09", "vs_model", &diffs, out);
        // cross-path identity: same facts through the v3 binary path (which cannot hold names > 255 bytes)
        if long_names {
            out.bucket("cross_path_binary_skipped_for_long_names");
        } else {
        match drive::via_bytes(&view, 3).1 {
            Ok(o2) => {
                let ids: Vec<u32> = view.terms.iter().map(|t| t.id).collect();
                let obs2 = observe::walk(&o2, &ids, &mut out.events);
                let mut d = Vec::new();
                observe::diff(&obs2, &obs, &mut d, &mut out.comparisons);
                report("C09", "vs_binary_path", &d, out);
                out.bucket("cross_path/binary");
            }
            Err(_) => out.bucket("cross_path_binary_unavailable"),
        }
        }
        // and through the Builder for facts it can express (no flags)
        if !view.terms.iter().any(|t| t.obsolete || t.replaced_by.is_some()) {
            if let Ok(o3) = drive::via_builder(&view, Some(rng), true) {
                let ids: Vec<u32> = view.terms.iter().map(|t| t.id).collect();
                let obs3 = observe::walk(&o3, &ids, &mut out.events);
                let mut d = Vec::new();
                observe::diff(&obs3, &obs, &mut d, &mut out.comparisons);
                report("C09", "vs_builder_path", &d, out);
                out.bucket("cross_path/builder");
            }
        }
    }

    // ------------------------------------------------------------------------------------- C16
    /// which ids resolve must not depend on the supply order even when there are more terms than a
    /// 16-bit index can hold
    fn c16_many_terms(&self, rng: &mut Rng, out: &mut CaseOut) {
        let n: u32 = 65_700;
        let mut f = FactSet::default();
        f.version = (2030, 6, 6);
        for id in 1..=n {
            f.terms.push(TermFact { id, name: format!("t{id}"), obsolete: false, replaced_by: None });
            if id > 1 {
                f.edges.push((id, if id <= 200 { rng.range(1, u64::from(id - 1)) as u32 } else { rng.range(1, 200) as u32 }));
            }
        }
        f.recs[0].push(RecFact { id: 1, name: "G".into(), terms: vec![n, 70, 40_000] });
        out.sig = hash_u64s(&[0x16a, f.content_hash()]);
        out.nontrivial = true;
        out.bucket("more_than_65535_terms");
        out.case = Json::obj().set("kind", Json::s("65 700 terms in three supply orders")).set("path", Json::s("builder_minimal"));
        let ids: Vec<u32> = (1..=n).collect();
        let mut first: Option<Obs> = None;
        for mode in [OrderMode::AsGiven, OrderMode::Reversed, OrderMode::Shuffled] {
            let perm = drive::permute(&f, mode, rng);
            let ont = match drive::via_builder(&perm, None, false) {
                Ok(o) => o,
                Err(e) => {
                    out.violate("C16", &format!("order_rejected/builder_minimal/{mode:?}"), format!("{e}"));
                    continue;
                }
            };
            let obs = observe::walk(&ont, &ids, &mut out.events);
            if let Some(fo) = &first {
                let mut d = Vec::new();
                observe::diff(fo, &obs, &mut d, &mut out.comparisons);
                report("C16", "vs_first_order/builder_minimal/many_terms", &d, out);
                out.bucket("permutation_pairs_compared");
            } else {
                first = Some(obs);
            }
        }
    }

    fn c16_case(&self, label: &str, rng: &mut Rng, tier: Tier, out: &mut CaseOut) {
        if label.starts_with("many") {
            self.c16_many_terms(rng, out);
            return;
        }
        let idx: u64 = label.split(':').nth(1).unwrap().parse().unwrap_or(0);
        let family = idx % 3; // 0 builder, 1 binary, 2 text
        let cfg = GenCfg {
            n_min: 3,
            n_max: if rng.chance(1, 6) { tier.pick(70, 150) } else { 32 },
            defaults: family != 0 || rng.chance(1, 2),
            flags: family != 0,
            empty_recs: family != 2,
            ..GenCfg::default()
        };
        let mut facts = crate::gen::gen_facts(rng, &cfg);
        if family == 2 {
            jaxable(&mut facts);
            // a quarter of the text cases describe an ontology without release version: the renderer then
            // may leave out the header block of hp.obo altogether (the file starts with a [Term] stanza)
            if rng.chance(1, 4) {
                facts.version = (0, 0, 0);
                out.bucket("text_files_without_release_version");
            }
        }
        let path = match family {
            0 => {
                if facts.has_defaults() && rng.chance(1, 2) {
                    PathKind::BuilderDefaults
                } else {
                    PathKind::BuilderMinimal
                }
            }
            1 => [PathKind::BytesV3, PathKind::BytesV2, PathKind::BytesV1, PathKind::RoundTrip][(idx / 3 % 4) as usize],
            _ => {
                if idx / 3 % 2 == 0 {
                    PathKind::Jax
                } else {
                    PathKind::JaxTransitive
                }
            }
        };
        let view = view_for(&facts, path);
        out.sig = hash_u64s(&[view.content_hash(), path as u64, rng.clone().next_u64()]);
        out.nontrivial = view.terms.len() >= 3 && !view.edges.is_empty();
        out.case = Json::obj().set("path", Json::s(path.name())).set("facts", view.to_json());
        out.bucket(&format!("path/{}", path.name()));
        let model = Model::new(&view, path.has_defaults());
        structural_buckets(&model, out);
        let expected = model.expected_obs(&view, &view.version_string());
        let ids: Vec<u32> = view.terms.iter().map(|t| t.id).collect();
        let mut modes = vec![OrderMode::AsGiven];
        modes.extend(drive::ADVERSARIAL);
        for _ in 0..6 {
            modes.push(OrderMode::Shuffled);
        }
        let mut first: Option<Obs> = None;
        for (i, mode) in modes.iter().enumerate() {
            let perm = drive::permute(&view, *mode, rng);
            out.bucket(&format!("order/{mode:?}"));
            bump(&mut out.events, "construct_permuted");
            let ont = match construct(&perm, path, rng, "c16") {
                Ok(o) => o,
                Err(e) => {
                    out.violate("C16", &format!("order_rejected/{}/{mode:?}", path.name()), format!("permutation {i} ({mode:?}) of valid facts rejected: {e}"));
                    continue;
                }
            };
            let obs = observe::walk(&ont, &ids, &mut out.events);
            let mut d = Vec::new();
            observe::diff(&expected, &obs, &mut d, &mut out.comparisons);
            report("C16", &format!("vs_model/{}", path.name()), &d, out);
            if let Some(f) = &first {
                let mut d2 = Vec::new();
                observe::diff(f, &obs, &mut d2, &mut out.comparisons);
                report("C16", &format!("vs_first_order/{}", path.name()), &d2, out);
                out.bucket("permutation_pairs_compared");
            } else {
                first = Some(obs);
            }
        }
    }
}

impl Monitor for MetaMonitor {
    fn id(&self) -> &'static str {
        self.prop
    }
    fn rule(&self) -> String {
        match self.prop {
            "C07" => "A case = one ontology containing HP:1 and HP:118 obtained through the Builder (defaults), the v1/v2/v3 decoders or the text loaders (these carry obsolete flags, replacements and over-long names), walked through the whole read API, serialised with as_bytes, reloaded with from_bytes and walked again; the two observations must be identical except names > 255 bytes (term, gene), which must come back as a 252..255-byte prefix; compare() with the reload must be empty; a second generation must be identical again. Catalogue: names of 254/255/256 bytes, 2/3/4-byte characters straddling byte 255 in term and gene names, long disease names, empty sections, records without terms, border ids, replacement ids up to u32::MAX. Distinct = (fact content, source path) hash; non-trivial = >= 3 terms.".into(),
            "C09" => "A case = one FactSet with HP:1/HP:118 rendered as hp.obo + phenotype.hpoa + genes_to_phenotype.txt/phenotype_to_genes.txt with shuffled stanzas and rows and noise (header tags, [Typedef]/[Instance] stanzas, def/synonym/xref/alt_id/comment tags containing ': ', NOT rows incl. diseases that only have NOT rows, DECIPHER rows, comment lines, extra columns, three gene header styles), loaded with from_standard or from_standard_transitive and compared through the whole read API with the model and with the same facts through the v3 binary and the Builder path. Distinct = (fact content, loader, noise, header style); non-trivial = >= 3 terms and an edge.".into(),
            _ => "A case = one FactSet and 11 supply orders (as generated, reverse-topological, ancestor-annotations first, descendant-annotations first, reversed, 6 random permutations of terms, links, annotation calls / binary records per section / stanzas and rows) through one path family (Builder, binary v1-v3 + round trip, text loaders); every resulting observation must equal the model and the first order's observation. Distinct = (fact content, path, permutation stream); non-trivial = >= 3 terms and an edge.".into(),
        }
    }
    fn assumptions(&self) -> Vec<String> {
        vec![
            "one name per id and one replacement per term; acyclic graphs; replacement ids need not resolve".into(),
            "text files are rendered in the JAX shape only (is_a carries '! name', tab separated, \\n line ends, header first)".into(),
        ]
    }
    fn plan(&self, tier: Tier) -> Vec<String> {
        let mut v = Vec::new();
        match self.prop {
            "C07" => {
                for i in 0..27 {
                    v.push(format!("long:{i}"));
                }
                for i in 0..SHIPPED_FILES.len() {
                    v.push(format!("real:{i}"));
                }
                v.extend(catalogue_labels());
                for i in 0..tier.pick(3000, 80_000) {
                    v.push(format!("rnd:{i}"));
                }
            }
            "C09" => {
                for i in 0..30 {
                    v.push(format!("cat:{i}"));
                }
                for i in 0..tier.pick(1500, 30_000) {
                    v.push(format!("rnd:{}", i + 30));
                }
            }
            _ => {
                v.push("many:0".to_string());
                for i in 0..24 {
                    v.push(format!("cat:{i}"));
                }
                for i in 0..tier.pick(600, 15_000) {
                    v.push(format!("rnd:{}", i + 24));
                }
            }
        }
        v
    }
    fn mandatory_buckets(&self, _tier: Tier) -> Vec<String> {
        let v: Vec<&str> = match self.prop {
            "C07" => vec![
                "term_name_over_255_bytes",
                "gene_name_over_255_bytes",
                "disease_name_over_255_bytes",
                "obsolete_term",
                "replaced_term",
                "record_without_terms",
                "empty_annotation_section",
                "multibyte_name",
                "source_path/builder_defaults",
                "source_path/bytes_v3",
                "source_path/jax",
                "shipped/ontology.hpo",
            ],
            "C09" => vec![
                "loader/standard",
                "loader/transitive",
                "noise_rows",
                "name_with_colon_space",
                "non_ascii_name",
                "obsolete_stanza",
                "replaced_by_tag",
                "omim_orpha_share_numeric_id",
                "gene_header_style/0",
                "gene_header_style/1",
                "gene_header_style/2",
                "cross_path/binary",
                "cross_path/builder",
            ],
            _ => vec![
                "path/builder_minimal",
                "path/builder_defaults",
                "path/bytes_v3",
                "path/bytes_v1",
                "path/jax",
                "path/jax_transitive",
                "path/as_bytes_roundtrip",
                "permutation_pairs_compared",
                "more_than_65535_terms",
                "child_id_below_parent_id",
                "multi_parent",
            ],
        };
        v.into_iter().map(str::to_string).collect()
    }
    fn run_case(&self, label: &str, seed: u64, tier: Tier) -> CaseOut {
        let mut out = CaseOut::new();
        let mut rng = Rng::for_case(seed, self.prop, label);
        match self.prop {
            "C07" => self.c07_case(label, &mut rng, tier, &mut out),
            "C09" => self.c09_case(label, &mut rng, tier, &mut out),
            _ => self.c16_case(label, &mut rng, tier, &mut out),
        }
        out
    }
}
