//! C10: lookups are exact for every possible id and every name (complete key-space sweep).

use crate::facts::{FactSet, RecFact, TermFact};
use crate::gen::{gen_name, NameMode};
use crate::json::Json;
use crate::observe::{bump, bump_n, guard};
use crate::rng::Rng;
use crate::runner::{CaseOut, Monitor, Tier};
use hpo::annotations::{AnnotationId, Disease, GeneId, OmimDiseaseId, OrphaDiseaseId};
use hpo::builder::Builder;
use hpo::{HpoTermId, Ontology};
use std::collections::{BTreeMap, BTreeSet};

pub struct C10;

const ID_SPACE: u32 = 10_000_000;

/// naive window scan (model of "name contains query")
fn contains_naive(hay: &str, needle: &str) -> bool {
    let h = hay.as_bytes();
    let n = needle.as_bytes();
    if n.is_empty() {
        return true;
    }
    if n.len() > h.len() {
        return false;
    }
    (0..=h.len() - n.len()).any(|i| &h[i..i + n.len()] == n)
}

fn char_substring(rng: &mut Rng, s: &str) -> String {
    let chars: Vec<char> = s.chars().collect();
    if chars.is_empty() {
        return String::new();
    }
    let a = rng.usize_below(chars.len());
    let b = a + 1 + rng.usize_below(chars.len() - a);
    chars[a..b].iter().collect()
}


/// record lookups by id, record iteration, gene_by_name and the OMIM name searches of one ontology
/// against the records it must hold (`tag` names the way the ontology was obtained)
#[allow(clippy::too_many_lines)]
fn record_checks(ont: &Ontology, recs: &[Vec<RecFact>; 3], tag: &str, rng: &mut Rng, out: &mut CaseOut) {
        // ---- record lookups by id
        let rec_ids: [BTreeMap<u32, &str>; 3] = [
            recs[0].iter().map(|r| (r.id, r.name.as_str())).collect(),
            recs[1].iter().map(|r| (r.id, r.name.as_str())).collect(),
            recs[2].iter().map(|r| (r.id, r.name.as_str())).collect(),
        ];
        let mut probe: BTreeSet<u32> = (0..20).collect();
        for k in 0..3 {
            probe.extend(rec_ids[k].keys().copied());
        }
        probe.extend([u32::MAX, u32::MAX - 1, ID_SPACE]);
        for id in &probe {
            bump_n(&mut out.events, "Ontology::gene/omim_disease/orpha_disease", 3);
            let g = ont.gene(&GeneId::from(*id)).map(|g| (g.id().as_u32(), g.name().to_string()));
            let o = ont.omim_disease(&OmimDiseaseId::from(*id)).map(|g| (g.id().as_u32(), g.name().to_string()));
            let p = ont.orpha_disease(&OrphaDiseaseId::from(*id)).map(|g| (g.id().as_u32(), g.name().to_string()));
            for (k, got) in [g, o, p].into_iter().enumerate() {
                let exp = rec_ids[k].get(id).map(|n| (*id, (*n).to_string()));
                out.check(got == exp, "C10", &format!("record_lookup/{}{tag}", crate::facts::KIND_NAMES[k]), || {
                    format!("lookup kind {k} id {id} = {got:?}, expected {exp:?}")
                });
            }
        }
        for k in 0..3 {
            let listed: BTreeSet<u32> = match k {
                0 => ont.genes().map(|g| g.id().as_u32()).collect(),
                1 => ont.omim_diseases().map(|g| g.id().as_u32()).collect(),
                _ => ont.orpha_diseases().map(|g| g.id().as_u32()).collect(),
            };
            let exp: BTreeSet<u32> = rec_ids[k].keys().copied().collect();
            out.check(listed == exp, "C10", &format!("record_iteration/{}{tag}", crate::facts::KIND_NAMES[k]), || {
                format!("kind {k}: iterated {listed:?}, expected {exp:?}")
            });
        }

        // ---- gene_by_name
        let mut sym_queries: Vec<String> = recs[0].iter().map(|r| r.name.clone()).collect();
        sym_queries.extend(recs[0].iter().map(|r| format!("ALIAS{}", r.id)));
        sym_queries.extend(["".to_string(), "GENE".to_string(), "gene1".to_string(), "DUP".to_string(), "DUP1 ".to_string(), "ΓENE".to_string()]);
        for q in &sym_queries {
            bump(&mut out.events, "Ontology::gene_by_name");
            out.bucket("name_queries");
            let got = ont.gene_by_name(q).map(|g| (g.id().as_u32(), g.name().to_string()));
            let exists = recs[0].iter().any(|r| &r.name == q);
            match got {
                Some((id, name)) => {
                    out.check(&name == q && rec_ids[0].get(&id) == Some(&q.as_str()), "C10", &format!("gene_by_name_wrong{tag}"), || {
                        format!("gene_by_name({q:?}) returned gene {id} '{name}'")
                    });
                }
                None => out.check(!exists, "C10", &format!("gene_by_name_misses{tag}"), || format!("gene_by_name({q:?}) = None although a gene has that symbol")),
            }
        }

        // ---- omim_diseases_by_name / omim_disease_by_name
        let mut queries: Vec<String> = vec!["".into(), "syndrome".into(), "Syndrome".into(), "SYNDROME".into(), "type 1".into(), "type 11".into(), "é".into(), "zzz-absent".into(), " ".into(), "e 1".into()];
        for r in &recs[1] {
            queries.push(char_substring(rng, &r.name));
            queries.push(r.name.clone());
            queries.push(format!("{}x", r.name));
        }
        for r in &recs[2] {
            // names of ORPHA diseases must not match in the OMIM search unless an OMIM name contains them
            queries.push(r.name.clone());
        }
        for q in &queries {
            bump(&mut out.events, "Ontology::omim_diseases_by_name");
            bump(&mut out.events, "Ontology::omim_disease_by_name");
            out.bucket("name_queries");
            let exp: BTreeSet<u32> = recs[1].iter().filter(|r| contains_naive(&r.name, q)).map(|r| r.id).collect();
            let got_v: Vec<u32> = ont.omim_diseases_by_name(q).map(|d| d.id().as_u32()).collect();
            let got: BTreeSet<u32> = got_v.iter().copied().collect();
            out.check(got_v.len() == got.len(), "C10", &format!("disease_search_duplicates{tag}"), || format!("omim_diseases_by_name({q:?}) yields duplicates: {got_v:?}"));
            out.check(got == exp, "C10", &format!("disease_search_set{tag}"), || {
                format!("omim_diseases_by_name({q:?}) = {got:?}, diseases whose name contains the query = {exp:?}")
            });
            let one = ont.omim_disease_by_name(q).map(|d| d.id().as_u32());
            out.check(
                match one {
                    Some(id) => exp.contains(&id),
                    None => exp.is_empty(),
                },
                "C10",
                &format!("disease_search_first{tag}"),
                || format!("omim_disease_by_name({q:?}) = {one:?}, matching set = {exp:?}"),
            );
        }
}

impl Monitor for C10 {
    fn id(&self) -> &'static str {
        "C10"
    }
    fn rule(&self) -> String {
        "A case = one set of terms (dense / sparse / border ids 0, 1, 9_999_999; attempts to add ids >= 10^7 are made under catch_unwind and the model follows the observed outcome) plus genes and diseases with overlapping ids and shared name fragments. \
         Ontology::hpo is queried for EVERY id 0..=10^7 and for sampled ids up to u32::MAX (aliases id+10^7*k, powers of two +-1); iter()/len(); gene/omim/orpha lookups for present and absent ids; gene_by_name and omim_diseases_by_name / omim_disease_by_name for substrings, the empty string, absent, non-ASCII and differently-cased queries against a naive window-scan model. \
         Distinct = distinct term-id set; non-trivial = >= 2 terms."
            .to_string()
    }
    fn assumptions(&self) -> Vec<String> {
        vec![
            "repeated new_term calls for one id use the same name (first-one-wins is an internal convention)".into(),
            "adding an id >= 10^7 may panic (not part of the lookup property); the model then treats it as not added".into(),
        ]
    }
    fn plan(&self, tier: Tier) -> Vec<String> {
        let mut v: Vec<String> = (0..10).map(|i| format!("cat:{i}")).collect();
        for i in 0..tier.pick(200, 4000) {
            v.push(format!("rnd:{i}"));
        }
        v
    }
    fn mandatory_buckets(&self, _tier: Tier) -> Vec<String> {
        ["full_key_sweeps", "more_than_65536_terms", "binary_round_trip_swept", "obo_loader_swept", "binary_decoder_with_flags", "alternating_lookups", "clone_swept", "clone_from_swept", "iterator_protocol", "id_0_present", "id_9999999_present", "add_beyond_id_space_attempted", "name_queries"]
            .iter()
            .map(|s| (*s).to_string())
            .collect()
    }
    fn extra_coverage(&self, _tier: Tier, buckets: &BTreeMap<String, u64>) -> Vec<(String, Json)> {
        vec![
            ("exhaustive".into(), Json::Bool(false)),
            (
                "exhaustive_key_dimension".into(),
                Json::s(format!(
                    "{} complete sweeps of all 10^7+1 term ids (exhaustive in the key dimension per ontology; ontologies are sampled)",
                    buckets.get("full_key_sweeps").copied().unwrap_or(0)
                )),
            ),
        ]
    }

    #[allow(clippy::too_many_lines)]
    fn run_case(&self, label: &str, seed: u64, _tier: Tier) -> CaseOut {
        let mut out = CaseOut::new();
        let mut rng = Rng::for_case(seed, "C10", label);
        let cat: Option<u32> = label.strip_prefix("cat:").map(|s| s.parse().unwrap());
        // ---- term set
        let mut want: Vec<u32> = Vec::new();
        let mode = cat.unwrap_or_else(|| rng.below(8) as u32);
        let n = rng.urange(1, 40);
        match mode {
            8 => want.extend((1..=70_000u32).rev()), // more terms than fit a 16-bit index, inserted in descending order
            9 => want.extend((0..66_000u32).map(|i| i * 151 % 9_999_991)), // > 65 536 sparse ids
            0 => want.extend([0, 1, 9_999_999]),
            1 => want.extend((0..n as u32).map(|i| i + 1)), // dense from 1
            2 => want.extend((0..n as u32).map(|i| 9_999_999 - i)), // dense at the top
            3 => want.extend([0u32, 2, 4, 6, 9_999_998]),
            4 => want.push(5_000_000),
            _ => {
                for _ in 0..n {
                    want.push(rng.range(0, 9_999_999) as u32);
                }
            }
        }
        let with_roots = mode < 8 && rng.chance(1, 2);
        if with_roots {
            want.push(1);
            want.push(118);
        }
        if rng.chance(1, 3) {
            want.push(0);
        }
        if rng.chance(1, 3) {
            want.push(9_999_999);
        }
        // duplicates (same name)
        if rng.chance(1, 2) && !want.is_empty() {
            let d = *rng.pick(&want);
            want.push(d);
        }
        rng.shuffle(&mut want);
        // ids beyond the id space
        let beyond: Vec<u32> = match rng.below(3) {
            0 => vec![ID_SPACE],
            1 => vec![ID_SPACE + 1, u32::MAX],
            _ => vec![ID_SPACE + rng.range(0, 1000) as u32, ID_SPACE * 2 + want[0] % ID_SPACE],
        };
        let mut names: BTreeMap<u32, String> = BTreeMap::new();
        for id in want.iter().chain(beyond.iter()) {
            names.entry(*id).or_insert_with(|| {
                if rng.chance(1, 12) {
                    String::new()
                } else if want.len() <= 64 && rng.chance(1, 10) {
                    // names at the upper end of what a binary term record can hold (246..=255 bytes)
                    let total = rng.urange(246, 255);
                    let tail = format!(" #{id}");
                    format!("{}{tail}", "n".repeat(total - tail.len()))
                } else {
                    format!("{} #{id}", gen_name(&mut rng, NameMode::Mixed))
                }
            });
        }

        // ---- records
        let mut f = FactSet::default();
        let frag = ["syndrome", "dysplasia", "Syndrome", "type 1", "type 11", "é-variant", ""];
        for k in 0..3 {
            let cnt = rng.urange(0, 10);
            let mut ids = BTreeSet::new();
            while ids.len() < cnt {
                ids.insert(if rng.chance(1, 10) { rng.range(0, u64::from(u32::MAX)) as u32 } else { rng.range(0, 14) as u32 });
            }
            for id in ids {
                let name = if k == 0 {
                    // gene symbols, some shared between ids
                    if rng.chance(1, 4) { "DUP1".to_string() } else { format!("GENE{id}") }
                } else {
                    let n = format!("{} {} {}", gen_name(&mut rng, NameMode::Mixed), rng.pick(&frag), id % 3);
                    // blanks at the ends belong to the name (stored and matched byte for byte)
                    if rng.chance(1, 5) {
                        format!("{}{n}{}", rng.pick(&["", " ", "\t", "\u{a0}", "  "]), rng.pick(&[" ", "", "\n", "\u{3000}", " \t"]))
                    } else {
                        n
                    }
                };
                let terms: Vec<u32> = if want.is_empty() || rng.chance(1, 3) {
                    vec![]
                } else {
                    vec![*rng.pick(&want)]
                };
                // several diseases may carry the very same name
                let name = match f.recs[k].last() {
                    Some(prev) if k > 0 && rng.chance(1, 4) => prev.name.clone(),
                    _ => name,
                };
                f.recs[k].push(RecFact { id, name, terms });
            }
        }

        // ---- build (Builder, minimal)
        let mut added: BTreeSet<u32> = BTreeSet::new();
        let mut beyond_outcome: Vec<String> = Vec::new();
        let built = guard(|| {
            let mut b = Builder::new();
            for id in &want {
                b.new_term(&names[id], *id);
            }
            b
        });
        let mut b = match built {
            Ok(b) => b,
            Err(p) => {
                out.violate("C10", "new_term_panics_inside_id_space", format!("new_term panicked for ids < 10^7: {} at {}", p.message, p.location));
                return out;
            }
        };
        added.extend(want.iter().copied());
        for id in &beyond {
            out.bucket("add_beyond_id_space_attempted");
            // the builder is moved into the closure and handed back on success; on a panic it is lost,
            // so rebuild it from scratch (the panic means "not added")
            let name = names[id].clone();
            let r = guard(std::panic::AssertUnwindSafe(|| {
                b.new_term(&name, *id);
            }));
            match r {
                Ok(()) => {
                    added.insert(*id);
                    beyond_outcome.push(format!("{id}: accepted"));
                    out.bucket("add_beyond_id_space_accepted");
                }
                Err(_) => {
                    beyond_outcome.push(format!("{id}: panicked (not added)"));
                    out.bucket("add_beyond_id_space_panicked");
                }
            }
        }
        let ont: Ontology = match guard(std::panic::AssertUnwindSafe(|| {
            let mut c = b.terms_complete().connect_all_terms();
            for k in 0..3 {
                for r in &f.recs[k] {
                    match (k, r.terms.first()) {
                        (0, None) => c.add_gene(&r.name, GeneId::from(r.id)),
                        (1, None) => {
                            c.add_omim_disease(&r.name, OmimDiseaseId::from(r.id));
                        }
                        (_, None) => {
                            c.add_orpha_disease(&r.name, OrphaDiseaseId::from(r.id));
                        }
                        (0, Some(t)) => c.annotate_gene(GeneId::from(r.id), &r.name, HpoTermId::from_u32(*t)).unwrap(),
                        (1, Some(t)) => c.annotate_omim_disease(OmimDiseaseId::from(r.id), &r.name, HpoTermId::from_u32(*t)).unwrap(),
                        (_, Some(t)) => c.annotate_orpha_disease(OrphaDiseaseId::from(r.id), &r.name, HpoTermId::from_u32(*t)).unwrap(),
                    }
                }
            }
            // refused calls (absent term) for records that exist already: the record stays what it was
            {
                let absent = HpoTermId::from_u32((0..).map(|i| 9_999_990u32 - i).find(|x| !added.contains(x)).unwrap());
                for k in 0..3 {
                    for r in f.recs[k].iter().filter(|r| r.id % 2 == 1) {
                        let res = match k {
                            0 => c.annotate_gene(GeneId::from(r.id), &r.name, absent).is_err(),
                            1 => c.annotate_omim_disease(OmimDiseaseId::from(r.id), &r.name, absent).is_err(),
                            _ => c.annotate_orpha_disease(OrphaDiseaseId::from(r.id), &r.name, absent).is_err(),
                        };
                        assert!(res, "annotate_* with an absent term must be refused");
                    }
                }
            }
            // a record that is mentioned again under another symbol / name keeps its first one; the other
            // spelling does not become a name of anything
            for r in &f.recs[0] {
                if r.id % 3 == 0 {
                    match r.terms.first() {
                        None => c.add_gene(&format!("ALIAS{}", r.id), GeneId::from(r.id)),
                        Some(t) => c.annotate_gene(GeneId::from(r.id), &format!("ALIAS{}", r.id), HpoTermId::from_u32(*t)).unwrap(),
                    }
                }
            }
            c.calculate_information_content().unwrap().build_minimal()
        })) {
            Ok(o) => o,
            Err(p) => {
                out.violate("C10", "build_panics", format!("building panicked: {} at {}", p.message, p.location));
                return out;
            }
        };

        out.sig = crate::rng::hash_u64s(&added.iter().map(|x| u64::from(*x)).collect::<Vec<_>>());
        out.nontrivial = added.len() >= 2;
        for t in &want {
            f.terms.push(TermFact { id: *t, name: names[t].clone(), obsolete: false, replaced_by: None });
        }
        out.case = Json::obj()
            .set("term_ids_added_in_order", Json::arr_u32(&want))
            .set("beyond_id_space", Json::arr_str(&beyond_outcome))
            .set("genes", Json::Arr(f.recs[0].iter().map(|r| Json::s(format!("{}={}", r.id, r.name))).collect()))
            .set("omim", Json::Arr(f.recs[1].iter().map(|r| Json::s(format!("{}={}", r.id, r.name))).collect()))
            .set("orpha", Json::Arr(f.recs[2].iter().map(|r| Json::s(format!("{}={}", r.id, r.name))).collect()));
        if added.len() > 65_536 {
            out.bucket("more_than_65536_terms");
        }
        if added.contains(&0) {
            out.bucket("id_0_present");
        }
        if added.contains(&9_999_999) {
            out.bucket("id_9999999_present");
        }

        // ---- the same key space through the binary round trip (needs the two root terms)
        let reloaded: Option<Ontology> = if with_roots && beyond.iter().all(|b| !added.contains(b)) {
            match crate::drive::as_bytes(&ont).ok().and_then(|b| crate::drive::from_bytes(&b).ok()) {
                Some(o) => Some(o),
                None => {
                    out.bucket("round_trip_unavailable");
                    None
                }
            }
        } else {
            None
        };
        if let Some(rt) = &reloaded {
            out.bucket("binary_round_trip_swept");
            let r = guard(|| {
                let mut bad: Vec<String> = Vec::new();
                for id in 0..=ID_SPACE {
                    let got = rt.hpo(id);
                    let exp = added.contains(&id);
                    match got {
                        Some(t) => {
                            if !exp || t.id().as_u32() != id || t.name() != names[&id] {
                                if bad.len() < 5 {
                                    bad.push(format!("after as_bytes/from_bytes hpo({id}) returned term {} '{}' (added: {exp})", t.id().as_u32(), t.name()));
                                }
                            }
                        }
                        None => {
                            if exp && bad.len() < 5 {
                                bad.push(format!("after as_bytes/from_bytes hpo({id}) is None although the term was added"));
                            }
                        }
                    }
                }
                let it: BTreeSet<u32> = rt.iter().map(|t| t.id().as_u32()).collect();
                if it != added || rt.len() != added.len() {
                    bad.push(format!("after as_bytes/from_bytes iteration yields {} terms, len() = {}, added {}", it.len(), rt.len(), added.len()));
                }
                bad
            });
            bump_n(&mut out.events, "Ontology::hpo", u64::from(ID_SPACE) + 1);
            out.bucket("full_key_sweeps");
            match r {
                Ok(bad) => {
                    out.comparisons += u64::from(ID_SPACE) + 1;
                    for b in bad {
                        out.violate("C10", "lookup_after_binary_round_trip", b);
                    }
                }
                Err(p) => out.violate("C10", "panic:hpo_sweep_round_trip", format!("{} at {}", p.message, p.location)),
            }
        }

        // a replacement id: absent from the ontology, present (also the term itself, also another obsolete term)
        let present_ids: Vec<u32> = added.iter().copied().filter(|x| *x != 0).collect(); // the formats write "no replacement" as 0
        let pick_replacement = |rng: &mut Rng| -> u32 {
            if !present_ids.is_empty() && rng.chance(1, 2) { *rng.pick(&present_ids) } else { rng.range(1, 9_999_999) as u32 }
        };
        // ---- terms with obsolete flags and replacements through the v2 / v3 decoder: the returned term must
        // carry the data of its record
        if with_roots && beyond.iter().all(|b| !added.contains(b)) && rng.chance(1, 2) {
            let mut bf = FactSet::default();
            bf.version = (2024, 4, 4);
            for id in &added {
                let obsolete = *id != 1 && *id != 118 && rng.chance(1, 3);
                let replaced_by = if *id != 1 && *id != 118 && rng.chance(1, 3) { Some(pick_replacement(&mut rng)) } else { None };
                bf.terms.push(TermFact { id: *id, name: names[id].clone(), obsolete, replaced_by });
            }
            let v = if rng.chance(1, 2) { 3 } else { 2 };
            match crate::drive::via_bytes_variant(&bf, v, &mut rng).1 {
                Ok(bo) => {
                    out.bucket("binary_decoder_with_flags");
                    // every way of iterating yields every term, obsolete or not
                    {
                        let expect: BTreeSet<u32> = bf.terms.iter().map(|t| t.id).collect();
                        let a: Vec<u32> = bo.iter().map(|t| t.id().as_u32()).collect();
                        let b: Vec<u32> = bo.hpos().map(|t| t.id().as_u32()).collect();
                        let c: Vec<u32> = (&bo).into_iter().map(|t| t.id().as_u32()).collect();
                        let mut d: Vec<u32> = Vec::new();
                        for t in &bo {
                            d.push(t.id().as_u32());
                        }
                        for (name, seq) in [("iter()", &a), ("hpos()", &b), ("(&ontology).into_iter()", &c), ("for t in &ontology", &d)] {
                            let set: BTreeSet<u32> = seq.iter().copied().collect();
                            out.check(set == expect && seq.len() == expect.len() && bo.len() == expect.len(), "C10", "iteration_with_obsolete_terms", || {
                                format!("{name} over a v{v} ontology with obsolete terms yields {} terms ({} distinct), len() = {}, records in the file: {}", seq.len(), set.len(), bo.len(), expect.len())
                            });
                        }
                    }
                    for t in &bf.terms {
                        bump(&mut out.events, "Ontology::hpo");
                        let got = bo.hpo(t.id).map(|x| (x.id().as_u32(), x.name().to_string(), x.is_obsolete(), x.replacement_id().map(|r| r.as_u32())));
                        let exp = Some((t.id, t.name.clone(), t.obsolete, t.replaced_by));
                        out.check(got == exp, "C10", "term_data_after_binary_load", || {
                            format!("v{v} file: hpo({}) returned {got:?}, the record says {exp:?}", t.id)
                        });
                    }
                }
                Err(e) => out.violate("C10", "binary_load_failed", format!("{e}")),
            }
        }

        // ---- the same terms through the hp.obo loader (names with ": ", non-ASCII ...)
        if with_roots && beyond.iter().all(|b| !added.contains(b)) && rng.chance(1, 2) {
            let mut jf = FactSet::default();
            jf.version = (2024, 3, 3);
            for id in &added {
                let mut name = names[id].clone();
                if rng.chance(1, 4) {
                    name = format!("EMG: {name}"); // the complete HPO has ~15 names of this form
                }
                // stanzas with is_obsolete / replaced_by tags (in any position relative to the name)
                let obsolete = *id != 1 && *id != 118 && rng.chance(1, 4);
                let replaced_by = if *id != 1 && *id != 118 && rng.chance(1, 4) { Some(pick_replacement(&mut rng)) } else { None };
                jf.terms.push(TermFact { id: *id, name, obsolete, replaced_by });
            }
            // the records that the text formats can express (those with at least one term)
            jf.recs = f.recs.clone();
            crate::monitors::common::jaxable(&mut jf);
            let jrecs = crate::jax::jax_view(&jf).recs;
            let jnames: BTreeMap<u32, String> = jf.terms.iter().map(|t| (t.id, t.name.clone())).collect();
            let o = crate::jax::JaxOpts { shuffle: true, noise: rng.chance(1, 2), gene_header_style: rng.below(3) as u8 };
            let transitive = rng.chance(1, 2);
            match crate::drive::via_jax(&jf, &mut rng, &o, transitive, "c10") {
                Ok(jo) => {
                    out.bucket("obo_loader_swept");
                    let r = guard(|| {
                        let mut bad: Vec<String> = Vec::new();
                        for id in 0..=ID_SPACE {
                            let got = jo.hpo(id);
                            let exp = added.contains(&id);
                            match got {
                                Some(t) => {
                                    if (!exp || t.id().as_u32() != id || t.name() != jnames[&id]) && bad.len() < 5 {
                                        bad.push(format!("loaded from hp.obo: hpo({id}) returned term {} '{}' (stanza present: {exp})", t.id().as_u32(), t.name()));
                                    }
                                }
                                None => {
                                    if exp && bad.len() < 5 {
                                        bad.push(format!("loaded from hp.obo: hpo({id}) is None although a [Term] stanza '{}' exists", jnames[&id]));
                                    }
                                }
                            }
                        }
                        let it: BTreeSet<u32> = jo.iter().map(|t| t.id().as_u32()).collect();
                        if it != added || jo.len() != added.len() {
                            bad.push(format!("loaded from hp.obo: iteration yields {} terms, len() = {}, stanzas {}", it.len(), jo.len(), added.len()));
                        }
                        bad
                    });
                    bump_n(&mut out.events, "Ontology::hpo", u64::from(ID_SPACE) + 1);
                    out.bucket("full_key_sweeps");
                    match r {
                        Ok(bad) => {
                            out.comparisons += u64::from(ID_SPACE) + 1;
                            for b in bad {
                                out.violate("C10", "lookup_after_obo_load", b);
                            }
                        }
                        Err(p) => out.violate("C10", "panic:hpo_sweep_obo", format!("{} at {}", p.message, p.location)),
                    }
                    record_checks(&jo, &jrecs, "/text_files", &mut rng, &mut out);
                    for t in &jf.terms {
                        bump(&mut out.events, "Ontology::hpo");
                        let got = jo.hpo(t.id).map(|x| (x.id().as_u32(), x.name().to_string(), x.is_obsolete(), x.replacement_id().map(|r| r.as_u32())));
                        let exp = Some((t.id, t.name.clone(), t.obsolete, t.replaced_by));
                        out.check(got == exp, "C10", "term_data_after_obo_load", || format!("hp.obo: hpo({}) returned {got:?}, the stanza says {exp:?}", t.id));
                    }
                }
                Err(e) => out.violate("C10", "obo_load_failed", format!("{e}")),
            }
        }

        // ---- complete key sweep
        let sweep = guard(|| {
            let mut bad: Vec<String> = Vec::new();
            let mut found = 0u64;
            for id in 0..=ID_SPACE {
                let got = ont.hpo(id);
                let exp = added.contains(&id);
                match got {
                    Some(t) => {
                        found += 1;
                        if !exp {
                            if bad.len() < 5 {
                                bad.push(format!("hpo({id}) returned term {} '{}' although {id} was never added", t.id().as_u32(), t.name()));
                            }
                        } else if t.id().as_u32() != id || t.name() != names[&id] {
                            if bad.len() < 5 {
                                bad.push(format!("hpo({id}) returned id {} name '{}', added as '{}'", t.id().as_u32(), t.name(), names[&id]));
                            }
                        }
                    }
                    None => {
                        if exp && bad.len() < 5 {
                            bad.push(format!("hpo({id}) is None although the term was added"));
                        }
                    }
                }
            }
            (bad, found)
        });
        bump_n(&mut out.events, "Ontology::hpo", u64::from(ID_SPACE) + 1);
        out.bucket("full_key_sweeps");
        match sweep {
            Ok((bad, _found)) => {
                out.comparisons += u64::from(ID_SPACE) + 1;
                for b in bad {
                    let site = if b.contains("never added") {
                        "hpo_returns_absent_id"
                    } else if b.contains("is None") {
                        "hpo_misses_present_id"
                    } else {
                        "hpo_returns_wrong_term"
                    };
                    out.violate("C10", site, b);
                }
            }
            Err(p) => out.violate("C10", "panic:hpo_sweep", format!("{} at {}", p.message, p.location)),
        }
        // sampled ids above the id space
        let mut hi: Vec<u32> = vec![ID_SPACE + 1, u32::MAX, u32::MAX - 1, 1 << 31, (1 << 31) - 1, (1 << 31) + 1, 1 << 24, (1 << 24) + 1];
        for a in added.iter().take(20) {
            for k in 1..=4u64 {
                let v = u64::from(*a) + u64::from(ID_SPACE) * k * 100;
                if v <= u64::from(u32::MAX) {
                    hi.push(v as u32);
                }
                let v = u64::from(*a % ID_SPACE) + u64::from(ID_SPACE) * k;
                if v <= u64::from(u32::MAX) {
                    hi.push(v as u32);
                }
            }
        }
        for id in hi {
            bump(&mut out.events, "Ontology::hpo");
            let exp = added.contains(&id);
            match guard(|| ont.hpo(id).map(|t| t.id().as_u32())) {
                Ok(got) => out.check(got.is_some() == exp && got.is_none_or(|g| g == id), "C10", "hpo_above_id_space", || {
                    format!("hpo({id}) = {got:?}, added = {exp}")
                }),
                Err(p) => out.violate("C10", "panic:hpo_above_id_space", format!("hpo({id}) panicked: {}", p.message)),
            }
        }

        // ---- alternating lookups on two live ontologies with different term sets (a lookup must depend on
        // the ontology it is asked of, not on what was looked up before)
        if added.len() <= 64 {
            let other: BTreeSet<u32> = added.iter().copied().filter(|_| rng.chance(1, 2)).chain([3u32, 5_000_001]).collect();
            let ob = guard(|| {
                let mut b2 = Builder::new();
                for id in &other {
                    b2.new_term(&format!("other {id}"), *id);
                }
                b2.terms_complete().connect_all_terms().calculate_information_content().unwrap().build_minimal()
            });
            if let Ok(ob) = ob {
                out.bucket("alternating_lookups");
                let probe: BTreeSet<u32> = added.iter().chain(other.iter()).copied().filter(|i| *i < ID_SPACE).collect();
                for _round in 0..2 {
                    for id in &probe {
                        bump_n(&mut out.events, "Ontology::hpo", 2);
                        let ga = ont.hpo(*id).map(|t| t.name().to_string());
                        let gb = ob.hpo(*id).map(|t| t.name().to_string());
                        let ea = added.contains(id).then(|| names[id].clone());
                        let eb = other.contains(id).then(|| format!("other {id}"));
                        out.check(ga == ea && gb == eb, "C10", "lookup_depends_on_earlier_calls", || {
                            format!("alternating lookups of {id}: first ontology {ga:?} (expected {ea:?}), second ontology {gb:?} (expected {eb:?})")
                        });
                    }
                }
            }
        }

        // ---- iteration
        bump(&mut out.events, "Ontology::iter");
        let it: Vec<u32> = ont.iter().map(|t| t.id().as_u32()).collect();
        let its: BTreeSet<u32> = it.iter().copied().collect();
        out.check(it.len() == its.len(), "C10", "iter_duplicates", || format!("iter yields {} items, {} distinct", it.len(), its.len()));
        out.check(its == added, "C10", "iter_set", || format!("iter yields {its:?}, added {added:?}"));
        out.check(ont.len() == added.len() && it.len() == ont.len(), "C10", "len", || {
            format!("len() = {}, iter().count() = {}, distinct ids added = {}", ont.len(), it.len(), added.len())
        });
        out.check(ont.is_empty() == added.is_empty(), "C10", "is_empty", || "is_empty disagrees".to_string());
        // the iterator through the other consumers of the Iterator protocol: every way of walking it
        // yields every term exactly once and agrees with len()
        if added.len() <= 70_000 {
            let n = added.len();
            bump_n(&mut out.events, "Ontology::iter (count/size_hint/nth/skip/last/fold)", 8);
            out.bucket("iterator_protocol");
            let r = guard(|| {
                let mut bad: Vec<String> = Vec::new();
                let c = ont.iter().take(n + 10).count();
                if c != n {
                    bad.push(format!("iter().count() = {c}, len() = {n}"));
                }
                let (lo, hi) = ont.iter().size_hint();
                if lo > n || hi.is_some_and(|h| h < n) {
                    bad.push(format!("iter().size_hint() = ({lo}, {hi:?}) excludes the real number of terms {n}"));
                }
                for k in [1usize, 2, n / 2, n.saturating_sub(1), n, n + 3] {
                    // k items taken by hand, the rest counted
                    let mut it = ont.iter();
                    let mut seen: BTreeSet<u32> = BTreeSet::new();
                    for _ in 0..k {
                        if let Some(t) = it.next() {
                            seen.insert(t.id().as_u32());
                        }
                    }
                    let (lo, hi) = it.size_hint();
                    let rest = it.take(n + 10).count();
                    let exp_rest = n.saturating_sub(k);
                    if rest != exp_rest {
                        bad.push(format!("after {k} next() calls count() = {rest}, expected {exp_rest} (len {n})"));
                    }
                    if lo > exp_rest || hi.is_some_and(|h| h < exp_rest) {
                        bad.push(format!("after {k} next() calls size_hint() = ({lo}, {hi:?}), {exp_rest} terms remain"));
                    }
                    let sk = ont.iter().skip(k).take(n + 10).count();
                    if sk != exp_rest {
                        bad.push(format!("iter().skip({k}).count() = {sk}, expected {exp_rest}"));
                    }
                    // the skipped part and the rest together are all terms, none twice
                    let rest_ids: Vec<u32> = ont.iter().skip(k).take(n + 10).map(|t| t.id().as_u32()).collect();
                    let mut all = seen.clone();
                    let mut dup = false;
                    for x in &rest_ids {
                        dup |= !all.insert(*x);
                    }
                    if dup || all != added {
                        bad.push(format!("first {k} items plus skip({k}) do not partition the terms"));
                    }
                    let nth = ont.iter().nth(k).map(|t| t.id().as_u32());
                    if nth != rest_ids.first().copied() {
                        bad.push(format!("iter().nth({k}) = {nth:?}, skip({k}).next() = {:?}", rest_ids.first()));
                    }
                }
                let folded = ont.iter().fold(0usize, |a, _| a + 1);
                if folded != n {
                    bad.push(format!("fold over iter() visits {folded} terms, len() = {n}"));
                }
                let last = ont.iter().last().map(|t| t.id().as_u32());
                let last2 = ont.iter().map(|t| t.id().as_u32()).collect::<Vec<_>>().last().copied();
                if last != last2 {
                    bad.push(format!("iter().last() = {last:?}, last collected item = {last2:?}"));
                }
                let mut it = ont.iter();
                while it.next().is_some() {}
                if it.next().is_some() || it.count() != 0 {
                    bad.push("an exhausted iterator yields or counts further terms".to_string());
                }
                let hp: BTreeSet<u32> = ont.hpos().map(|t| t.id().as_u32()).collect();
                if hp != added || ont.hpos().count() != n {
                    bad.push("hpos() disagrees with iter()".to_string());
                }
                let by_ref: BTreeSet<u32> = (&ont).into_iter().map(|t| t.id().as_u32()).collect();
                if by_ref != added {
                    bad.push("(&ontology).into_iter() disagrees with iter()".to_string());
                }
                bad
            });
            match r {
                Ok(bad) => {
                    out.comparisons += 30;
                    for b in bad {
                        out.violate("C10", "iterator_protocol", b);
                    }
                }
                Err(p) => out.violate("C10", "panic:iterator_protocol", format!("{} at {}", p.message, p.location)),
            }
        }

        record_checks(&ont, &f.recs, "", &mut rng, &mut out);
        if let Some(rt) = &reloaded {
            // the binary round trip keeps every record, also those without terms
            record_checks(rt, &f.recs, "/round_trip", &mut rng, &mut out);
        }
        // ---- a clone of the ontology answers every lookup like the original
        {
            bump(&mut out.events, "Ontology::clone");
            match guard(|| ont.clone()) {
                Ok(cl) => {
                    out.bucket("clone_swept");
                    let r = guard(|| {
                        let mut bad: Vec<String> = Vec::new();
                        for id in 0..=ID_SPACE {
                            let got = cl.hpo(id);
                            let exp = added.contains(&id);
                            match got {
                                Some(t) => {
                                    if (!exp || t.id().as_u32() != id || t.name() != names[&id]) && bad.len() < 5 {
                                        bad.push(format!("clone: hpo({id}) returned term {} '{}' (added: {exp})", t.id().as_u32(), t.name()));
                                    }
                                }
                                None => {
                                    if exp && bad.len() < 5 {
                                        bad.push(format!("clone: hpo({id}) is None although the term was added"));
                                    }
                                }
                            }
                        }
                        let it: Vec<u32> = cl.iter().map(|t| t.id().as_u32()).collect();
                        let its: BTreeSet<u32> = it.iter().copied().collect();
                        if its != added || cl.len() != added.len() || it.len() != added.len() {
                            bad.push(format!("clone: iteration yields {} terms ({} distinct), len() = {}, added {}", it.len(), its.len(), cl.len(), added.len()));
                        }
                        bad
                    });
                    bump_n(&mut out.events, "Ontology::hpo", u64::from(ID_SPACE) + 1);
                    out.bucket("full_key_sweeps");
                    match r {
                        Ok(bad) => {
                            out.comparisons += u64::from(ID_SPACE) + 1;
                            for b in bad {
                                out.violate("C10", "lookup_on_clone", b);
                            }
                        }
                        Err(p) => out.violate("C10", "panic:hpo_sweep_clone", format!("{} at {}", p.message, p.location)),
                    }
                    record_checks(&cl, &f.recs, "/clone", &mut rng, &mut out);
                    // clone_from into a destination that held OTHER terms: every slot of the old content
                    // is gone afterwards
                    if added.len() <= 64 {
                        let other: Vec<u32> = (0..rng.urange(1, 30)).map(|_| rng.range(0, 9_999_999) as u32).chain([2u32, 3, 9_999_998]).collect();
                        let dst = guard(|| {
                            let mut b2 = Builder::new();
                            for id in &other {
                                b2.new_term(&format!("old content {id}"), *id);
                            }
                            let mut d = b2.terms_complete().connect_all_terms().calculate_information_content().unwrap().build_minimal();
                            d.clone_from(&ont);
                            d
                        });
                        match dst {
                            Ok(d) => {
                                out.bucket("clone_from_swept");
                                let r = guard(|| {
                                    let mut bad: Vec<String> = Vec::new();
                                    for id in 0..=ID_SPACE {
                                        let got = d.hpo(id).map(|t| (t.id().as_u32(), t.name().to_string()));
                                        let exp = added.contains(&id).then(|| (id, names[&id].clone()));
                                        if got != exp && bad.len() < 5 {
                                            bad.push(format!("after clone_from: hpo({id}) = {got:?}, expected {exp:?} (the destination held {} other terms before)", other.len()));
                                        }
                                    }
                                    let its: BTreeSet<u32> = d.iter().map(|t| t.id().as_u32()).collect();
                                    if its != added || d.len() != added.len() {
                                        bad.push(format!("after clone_from: iteration yields {} terms, len() = {}, source has {}", its.len(), d.len(), added.len()));
                                    }
                                    bad
                                });
                                bump_n(&mut out.events, "Ontology::hpo", u64::from(ID_SPACE) + 1);
                                out.bucket("full_key_sweeps");
                                match r {
                                    Ok(bad) => {
                                        out.comparisons += u64::from(ID_SPACE) + 1;
                                        for b in bad {
                                            out.violate("C10", "lookup_after_clone_from", b);
                                        }
                                    }
                                    Err(p) => out.violate("C10", "panic:hpo_sweep_clone_from", format!("{} at {}", p.message, p.location)),
                                }
                                record_checks(&d, &f.recs, "/clone_from", &mut rng, &mut out);
                            }
                            Err(p) => out.violate("C10", "panic:clone_from", format!("{} at {}", p.message, p.location)),
                        }
                    }
                    // and the original is not disturbed by having been cloned
                    for id in added.iter().take(50).chain([0u32, 1, 2].iter()) {
                        let got = ont.hpo(*id).map(|t| t.name().to_string());
                        let exp = added.contains(id).then(|| names[id].clone());
                        out.check(got == exp, "C10", "lookup_on_original_after_clone", || format!("hpo({id}) = {got:?} after cloning, expected {exp:?}"));
                    }
                }
                Err(p) => out.violate("C10", "panic:clone", format!("{} at {}", p.message, p.location)),
            }
        }
        out
    }
}
