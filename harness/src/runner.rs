//! Case runner: worker pool, aggregation, evidence, known findings, verdicts.

use crate::json::Json;
use crate::observe::{guard, merge, Counters};
use std::collections::{BTreeMap, BTreeSet, HashSet};
use std::sync::atomic::{AtomicBool, AtomicUsize, Ordering};
use std::sync::Mutex;
use std::time::Instant;

#[derive(Clone, Copy, Debug, PartialEq, Eq)]
pub enum Tier {
    Quick,
    Thorough,
}

impl Tier {
    pub fn name(self) -> &'static str {
        match self {
            Tier::Quick => "quick",
            Tier::Thorough => "thorough",
        }
    }
    pub fn pick<T>(self, q: T, t: T) -> T {
        match self {
            Tier::Quick => q,
            Tier::Thorough => t,
        }
    }
}

#[derive(Clone, Debug)]
pub struct Violation {
    /// static assertion site + discriminating parameters; the key for known findings
    pub signature: String,
    pub detail: String,
}

#[derive(Default)]
pub struct CaseOut {
    /// hash of the canonical case content
    pub sig: u64,
    pub nontrivial: bool,
    pub events: Counters,
    pub comparisons: u64,
    pub buckets: BTreeMap<String, u64>,
    pub violations: Vec<Violation>,
    /// full description of the case (written into replay files and, for a few, into samples)
    pub case: Json,
    pub inconclusive: Option<String>,
}

impl CaseOut {
    pub fn new() -> Self {
        CaseOut {
            case: Json::Null,
            ..Default::default()
        }
    }
    pub fn bucket(&mut self, b: &str) {
        *self.buckets.entry(b.to_string()).or_insert(0) += 1;
    }
    pub fn bucket_n(&mut self, b: &str, n: u64) {
        *self.buckets.entry(b.to_string()).or_insert(0) += n;
    }
    pub fn violate(&mut self, prop: &str, site: &str, detail: String) {
        // cap per case to keep output bounded
        if self.violations.len() < 50 {
            self.violations.push(Violation {
                signature: format!("{prop}/{site}"),
                detail,
            });
        }
    }
    pub fn check(&mut self, ok: bool, prop: &str, site: &str, detail: impl FnOnce() -> String) {
        self.comparisons += 1;
        if !ok {
            self.violate(prop, site, detail());
        }
    }
}

pub trait Monitor: Sync {
    fn id(&self) -> &'static str;
    fn level(&self) -> &'static str {
        "exploration"
    }
    fn rule(&self) -> String;
    fn assumptions(&self) -> Vec<String>;
    /// labels of the cases to run: catalogue first, then seeded random cases
    fn plan(&self, tier: Tier) -> Vec<String>;
    fn run_case(&self, label: &str, seed: u64, tier: Tier) -> CaseOut;
    /// buckets that must be non-zero for the run to count as conclusive
    fn mandatory_buckets(&self, _tier: Tier) -> Vec<String> {
        vec![]
    }
    /// run-level checks over the aggregated buckets (e.g. "one reading for all pairs")
    fn finish(&self, _buckets: &BTreeMap<String, u64>) -> Vec<Violation> {
        vec![]
    }
    /// extra coverage keys (e.g. exhaustive: true)
    fn extra_coverage(&self, _tier: Tier, _buckets: &BTreeMap<String, u64>) -> Vec<(String, Json)> {
        vec![]
    }
    /// executed once after all cases (e.g. an offline checker over a recorded event log).
    /// Returns (violations, extra coverage keys, inconclusive reason)
    fn post_run(&self, _tier: Tier, _seed: u64, _verif_root: &str) -> (Vec<Violation>, Vec<(String, Json)>, Option<String>) {
        (vec![], vec![], None)
    }
    /// executed once before any case
    fn pre_run(&self, _tier: Tier, _seed: u64, _verif_root: &str) {}
    /// soft wall-clock budget in seconds after which no further *random* case is started
    fn budget_s(&self, tier: Tier) -> u64 {
        tier.pick(90, 600)
    }
}

#[derive(Clone, Debug)]
pub struct Known {
    pub property: String,
    pub signature: String,
    pub status: String,
    pub what: String,
}

pub fn load_known(path: &str) -> Vec<Known> {
    let Ok(text) = std::fs::read_to_string(path) else {
        return vec![];
    };
    let Ok(j) = Json::parse(&text) else {
        eprintln!("warning: cannot parse {path}");
        return vec![];
    };
    let mut out = vec![];
    if let Some(arr) = j.get("findings").and_then(Json::as_arr) {
        for e in arr {
            let g = |k: &str| e.get(k).and_then(Json::as_str).unwrap_or("").to_string();
            out.push(Known {
                property: g("property"),
                signature: g("signature"),
                status: g("status"),
                what: g("what"),
            });
        }
    }
    out
}

pub struct RunCfg {
    pub tier: Tier,
    pub seed: u64,
    pub jobs: usize,
    pub verif_root: String,
    pub only_label: Option<String>,
}

struct Agg {
    evaluations: u64,
    sigs: HashSet<u64>,
    nontrivial_sigs: HashSet<u64>,
    events: Counters,
    comparisons: u64,
    buckets: BTreeMap<String, u64>,
    /// signature -> (first detail, label, case, count)
    violations: BTreeMap<String, (String, String, Json, u64)>,
    samples: Vec<Json>,
    inconclusive: Vec<String>,
}

/// Returns the process exit code.
pub fn run(mon: &dyn Monitor, cfg: &RunCfg) -> i32 {
    let t0 = Instant::now();
    let id = mon.id();
    let mut labels: Vec<String> = match &cfg.only_label {
        Some(l) => vec![l.clone()],
        None => mon.plan(cfg.tier),
    };
    // VERIF_LIMIT caps the plan (used by the sanitizer add-ons, whose runs are 10-100x slower)
    if let Some(n) = std::env::var("VERIF_LIMIT").ok().and_then(|s| s.parse::<usize>().ok()) {
        if labels.len() > n {
            // keep the head (catalogue) and an even sample of the rest
            let head = n / 2;
            let rest: Vec<String> = labels[head..].iter().step_by(((labels.len() - head) / (n - head).max(1)).max(1)).take(n - head).cloned().collect();
            labels.truncate(head);
            labels.extend(rest);
        }
    }
    let next = AtomicUsize::new(0);
    let stop = AtomicBool::new(false);
    let budget = mon.budget_s(cfg.tier);
    let watchdog = budget * 10 + 120;
    let agg = Mutex::new(Agg {
        evaluations: 0,
        sigs: HashSet::new(),
        nontrivial_sigs: HashSet::new(),
        events: Counters::new(),
        comparisons: 0,
        buckets: BTreeMap::new(),
        violations: BTreeMap::new(),
        samples: Vec::new(),
        inconclusive: Vec::new(),
    });
    let budget_cut = AtomicBool::new(false);
    let skipped = AtomicUsize::new(0);
    if cfg.only_label.is_none() {
        mon.pre_run(cfg.tier, cfg.seed, &cfg.verif_root);
    }

    std::thread::scope(|s| {
        for _ in 0..cfg.jobs.max(1) {
            std::thread::Builder::new()
                .stack_size(256 << 20)
                .spawn_scoped(s, || loop {
                    if stop.load(Ordering::Relaxed) {
                        break;
                    }
                    let i = next.fetch_add(1, Ordering::Relaxed);
                    if i >= labels.len() {
                        break;
                    }
                    let label = &labels[i];
                    let el = t0.elapsed().as_secs();
                    if el > watchdog {
                        stop.store(true, Ordering::Relaxed);
                        agg.lock().unwrap().inconclusive.push(format!("watchdog fired after {el}s"));
                        break;
                    }
                    if el > budget && label.starts_with("rnd") {
                        budget_cut.store(true, Ordering::Relaxed);
                        skipped.fetch_add(1, Ordering::Relaxed);
                        continue;
                    }
                    journal(&format!("START {label}"));
                    let res = guard(|| mon.run_case(label, cfg.seed, cfg.tier));
                    journal(&format!("END {label}"));
                    let mut a = agg.lock().unwrap();
                    match res {
                        Ok(out) => {
                            a.evaluations += 1;
                            a.sigs.insert(out.sig);
                            if out.nontrivial {
                                a.nontrivial_sigs.insert(out.sig);
                            }
                            merge(&mut a.events, &out.events);
                            a.comparisons += out.comparisons;
                            for (k, v) in &out.buckets {
                                *a.buckets.entry(k.clone()).or_insert(0) += v;
                            }
                            if let Some(r) = out.inconclusive {
                                a.inconclusive.push(format!("case {label}: {r}"));
                            }
                            let want_sample = a.samples.len() < 3 && out.nontrivial && out.case != Json::Null;
                            if want_sample {
                                a.samples.push(
                                    Json::obj()
                                        .set("label", Json::s(label.as_str()))
                                        .set("case", out.case.clone()),
                                );
                            }
                            for v in out.violations {
                                if !a.violations.contains_key(&v.signature) {
                                    // first witness of this signature: the replay file is written at once and
                                    // noted in the journal, so that it survives if the run is cut short later
                                    // (a case that never returns, a crash, the watchdog)
                                    early_witness(id, cfg, &v.signature, &v.detail, label, &out.case);
                                }
                                let e = a
                                    .violations
                                    .entry(v.signature.clone())
                                    .or_insert_with(|| (v.detail.clone(), label.clone(), out.case.clone(), 0));
                                e.3 += 1;
                            }
                        }
                        Err(p) => {
                            if p.in_harness() {
                                a.inconclusive.push(format!(
                                    "case {label}: harness panic '{}' at {}",
                                    p.message, p.location
                                ));
                            } else {
                                // a panic escaping from the library on an in-contract call
                                let sig = format!("{id}/unguarded_panic/{}", strip_line(&p.location));
                                let e = a.violations.entry(sig).or_insert_with(|| {
                                    (
                                        format!("library panicked: '{}' at {}", p.message, p.location),
                                        label.clone(),
                                        Json::Null,
                                        0,
                                    )
                                });
                                e.3 += 1;
                            }
                        }
                    }
                })
                .expect("spawn worker");
        }
    });

    let mut a = agg.into_inner().unwrap();
    for v in mon.finish(&a.buckets) {
        a.violations
            .entry(v.signature.clone())
            .or_insert((v.detail.clone(), "run-level".to_string(), Json::Null, 1));
    }
    let mut post_cov: Vec<(String, Json)> = Vec::new();
    if cfg.only_label.is_none() {
        let (pv, pc, inc) = mon.post_run(cfg.tier, cfg.seed, &cfg.verif_root);
        for v in pv {
            a.violations
                .entry(v.signature.clone())
                .or_insert((v.detail.clone(), "post-run".to_string(), Json::Null, 1));
        }
        post_cov = pc;
        if let Some(r) = inc {
            a.inconclusive.push(r);
        }
    }
    // mandatory buckets
    if cfg.only_label.is_none() {
        for b in mon.mandatory_buckets(cfg.tier) {
            if a.buckets.get(&b).copied().unwrap_or(0) == 0 {
                a.inconclusive.push(format!("mandatory bucket '{b}' observed nothing"));
            }
        }
        if a.evaluations == 0 {
            a.inconclusive.push("no case executed".to_string());
        }
    }

    let known = load_known(&format!("{}/known_findings.json", cfg.verif_root));
    let mut n_viol = 0u64;
    let mut known_seen: Vec<String> = Vec::new();
    let mut out_lines: Vec<String> = Vec::new();
    let replay_dir = format!("{}/replays", cfg.verif_root);
    let _ = std::fs::create_dir_all(&replay_dir);
    let mut viol_json: Vec<Json> = Vec::new();
    for (sig, (detail, label, case, count)) in &a.violations {
        let k = known
            .iter()
            .find(|k| k.status == "known" && k.property == id && &k.signature == sig);
        if let Some(k) = k {
            out_lines.push(format!("KNOWN-FINDING: property={id} {} [{} occurrence(s), signature {sig}]", k.what, count));
            known_seen.push(sig.clone());
            continue;
        }
        n_viol += 1;
        let fname = format!(
            "{replay_dir}/{id}-s{}-{}-{:08x}.json",
            cfg.seed,
            sanitize(label),
            crate::rng::hash_bytes(sig.as_bytes()) as u32
        );
        let rj = Json::obj()
            .set("property", Json::s(id))
            .set("tier", Json::s(cfg.tier.name()))
            .set("seed", Json::u(cfg.seed))
            .set("label", Json::s(label.as_str()))
            .set("signature", Json::s(sig.as_str()))
            .set("occurrences", Json::u(*count))
            .set("detail", Json::s(detail.as_str()))
            .set("case", case.clone());
        let _ = std::fs::write(&fname, rj.to_pretty());
        if n_viol <= 20 {
            out_lines.push(format!("VIOLATION property={id} replay={fname}"));
            out_lines.push(format!("  signature: {sig} ({count}x)"));
            out_lines.push(format!("  detail: {}", truncate(detail, 600)));
        }
        viol_json.push(
            Json::obj()
                .set("signature", Json::s(sig.as_str()))
                .set("occurrences", Json::u(*count))
                .set("detail", Json::s(truncate(detail, 400)))
                .set("replay", Json::s(fname)),
        );
    }

    let wall = t0.elapsed().as_secs_f64();
    if cfg.only_label.is_none() {
        // ---- evidence
        let mut cov = Json::obj()
            .set("evaluations", Json::u(a.evaluations))
            .set("distinct_nontrivial", Json::us(a.nontrivial_sigs.len()))
            .set("distinct_cases", Json::us(a.sigs.len()))
            .set("rule", Json::s(mon.rule()))
            .set("comparisons", Json::u(a.comparisons))
            .set("events_total", Json::u(a.events.values().sum()))
            .set("events", Json::from_counts(&a.events))
            .set("buckets", Json::from_counts(&a.buckets))
            .set("planned_cases", Json::us(labels.len()))
            .set("budget_cut", Json::Bool(budget_cut.load(Ordering::Relaxed)))
            .set("random_cases_skipped_by_budget", Json::us(skipped.load(Ordering::Relaxed)))
            .set("known_findings_seen", Json::arr_str(&known_seen))
            .set("violation_list", Json::Arr(viol_json))
            .set("inconclusive", Json::arr_str(&a.inconclusive));
        for (k, v) in mon.extra_coverage(cfg.tier, &a.buckets) {
            cov.put(&k, v);
        }
        for (k, v) in post_cov {
            cov.put(&k, v);
        }
        if a.samples.is_empty() {
            a.samples.push(Json::s("no non-trivial case produced a sample"));
        }
        cov.put("samples", Json::Arr(a.samples.clone()));
        let ev = Json::obj()
            .set("property_id", Json::s(id))
            .set("tier", Json::s(cfg.tier.name()))
            .set("seed", Json::u(cfg.seed))
            .set("level", Json::s(mon.level()))
            .set("coverage", cov)
            .set("assumptions", Json::arr_str(&mon.assumptions()))
            .set("wall_s", Json::Num((wall * 100.0).round() / 100.0))
            .set("violations", Json::u(n_viol));
        let dir = format!("{}/evidence", cfg.verif_root);
        let _ = std::fs::create_dir_all(&dir);
        let path = format!("{dir}/{id}.json");
        // merge sanitizer add-on results written by ./check after us: they live under "addons" and are
        // appended by the driver; here we simply (re)write the base file
        if let Err(e) = std::fs::write(&path, ev.to_pretty()) {
            eprintln!("cannot write evidence {path}: {e}");
            a.inconclusive.push(format!("cannot write evidence: {e}"));
        }
    }

    for l in &out_lines {
        println!("{l}");
    }
    println!(
        "{id} {}: {} cases ({} distinct non-trivial), {} events, {} comparisons, {} violation signature(s), {} known, {:.1}s",
        cfg.tier.name(),
        a.evaluations,
        a.nontrivial_sigs.len(),
        a.events.values().sum::<u64>(),
        a.comparisons,
        n_viol,
        known_seen.len(),
        wall
    );
    if n_viol > 0 {
        return 1;
    }
    if !a.inconclusive.is_empty() {
        let uniq: BTreeSet<&String> = a.inconclusive.iter().collect();
        for r in uniq.iter().take(10) {
            println!("INCONCLUSIVE property={id} reason={r}");
        }
        return 2;
    }
    0
}

/// replay file name of a signature first seen in `label`
fn replay_name(cfg: &RunCfg, id: &str, label: &str, sig: &str) -> String {
    format!(
        "{}/replays/{id}-s{}-{}-{:08x}.json",
        cfg.verif_root,
        cfg.seed,
        sanitize(label),
        crate::rng::hash_bytes(sig.as_bytes()) as u32
    )
}

fn early_witness(id: &str, cfg: &RunCfg, sig: &str, detail: &str, label: &str, case: &Json) {
    if std::env::var("VERIF_JOURNAL").is_err() {
        return;
    }
    let known = load_known(&format!("{}/known_findings.json", cfg.verif_root));
    if known.iter().any(|k| k.status == "known" && k.property == id && k.signature == sig) {
        return;
    }
    let _ = std::fs::create_dir_all(format!("{}/replays", cfg.verif_root));
    let fname = replay_name(cfg, id, label, sig);
    let rj = Json::obj()
        .set("property", Json::s(id))
        .set("tier", Json::s(cfg.tier.name()))
        .set("seed", Json::u(cfg.seed))
        .set("label", Json::s(label))
        .set("signature", Json::s(sig))
        .set("occurrences", Json::u(1))
        .set("detail", Json::s(detail))
        .set("case", case.clone());
    let _ = std::fs::write(&fname, rj.to_pretty());
    journal(&format!("WITNESS {fname} {sig}"));
}

/// crash journal: if the process dies (stack overflow, abort) the driver finds the cases that were in
/// flight and re-runs each one in isolation to see whether the crash reproduces
fn journal(line: &str) {
    use std::io::Write;
    static J: std::sync::OnceLock<Option<Mutex<std::fs::File>>> = std::sync::OnceLock::new();
    let j = J.get_or_init(|| std::env::var("VERIF_JOURNAL").ok().and_then(|p| std::fs::File::create(p).ok()).map(Mutex::new));
    if let Some(m) = j {
        if let Ok(mut f) = m.lock() {
            let _ = writeln!(f, "{line}");
            let _ = f.flush();
        }
    }
}

fn strip_line(loc: &str) -> String {
    // "path:line" -> "path" so that line shifts do not change signatures
    loc.rsplit_once(':').map_or(loc.to_string(), |(p, _)| p.to_string())
}

fn sanitize(s: &str) -> String {
    s.chars()
        .map(|c| if c.is_ascii_alphanumeric() { c } else { '_' })
        .collect()
}

pub fn truncate(s: &str, n: usize) -> String {
    if s.len() <= n {
        s.to_string()
    } else {
        let mut e = n;
        while !s.is_char_boundary(e) {
            e -= 1;
        }
        format!("{}…", &s[..e])
    }
}
