//! Deterministic PRNG (SplitMix64 seeding + xoshiro256**). No external crates.

#[derive(Clone, Debug)]
pub struct Rng {
    s: [u64; 4],
}

pub fn splitmix(x: &mut u64) -> u64 {
    *x = x.wrapping_add(0x9E37_79B9_7F4A_7C15);
    let mut z = *x;
    z = (z ^ (z >> 30)).wrapping_mul(0xBF58_476D_1CE4_E5B9);
    z = (z ^ (z >> 27)).wrapping_mul(0x94D0_49BB_1331_11EB);
    z ^ (z >> 31)
}

/// FNV-1a over bytes, then splitmix finalisation
pub fn hash_bytes(b: &[u8]) -> u64 {
    let mut h: u64 = 0xcbf2_9ce4_8422_2325;
    for x in b {
        h ^= u64::from(*x);
        h = h.wrapping_mul(0x0000_0100_0000_01B3);
    }
    let mut s = h;
    splitmix(&mut s)
}

pub fn hash_u64s(v: &[u64]) -> u64 {
    let mut h: u64 = 0x1234_5678_9abc_def1;
    for x in v {
        h ^= *x;
        let mut s = h;
        h = splitmix(&mut s);
    }
    h
}

impl Rng {
    pub fn new(seed: u64) -> Self {
        let mut x = seed;
        let s = [
            splitmix(&mut x),
            splitmix(&mut x),
            splitmix(&mut x),
            splitmix(&mut x),
        ];
        Rng { s }
    }

    /// Independent stream for (seed, property, case label)
    pub fn for_case(seed: u64, prop: &str, label: &str) -> Self {
        let h = hash_u64s(&[seed, hash_bytes(prop.as_bytes()), hash_bytes(label.as_bytes())]);
        Rng::new(h)
    }

    pub fn fork(&mut self, tag: u64) -> Rng {
        let a = self.next_u64();
        Rng::new(hash_u64s(&[a, tag]))
    }

    pub fn next_u64(&mut self) -> u64 {
        let result = self.s[1].wrapping_mul(5).rotate_left(7).wrapping_mul(9);
        let t = self.s[1] << 17;
        self.s[2] ^= self.s[0];
        self.s[3] ^= self.s[1];
        self.s[1] ^= self.s[2];
        self.s[0] ^= self.s[3];
        self.s[2] ^= t;
        self.s[3] = self.s[3].rotate_left(45);
        result
    }

    /// uniform in 0..n (n > 0)
    pub fn below(&mut self, n: u64) -> u64 {
        assert!(n > 0);
        // multiply-shift; bias negligible for our n
        ((u128::from(self.next_u64()) * u128::from(n)) >> 64) as u64
    }

    pub fn usize_below(&mut self, n: usize) -> usize {
        self.below(n as u64) as usize
    }

    /// uniform in lo..=hi
    pub fn range(&mut self, lo: u64, hi: u64) -> u64 {
        assert!(hi >= lo);
        lo + self.below(hi - lo + 1)
    }

    pub fn urange(&mut self, lo: usize, hi: usize) -> usize {
        self.range(lo as u64, hi as u64) as usize
    }

    pub fn chance(&mut self, num: u64, den: u64) -> bool {
        self.below(den) < num
    }

    pub fn f64(&mut self) -> f64 {
        (self.next_u64() >> 11) as f64 / (1u64 << 53) as f64
    }

    pub fn shuffle<T>(&mut self, v: &mut [T]) {
        let n = v.len();
        for i in (1..n).rev() {
            let j = self.usize_below(i + 1);
            v.swap(i, j);
        }
    }

    pub fn pick<'a, T>(&mut self, v: &'a [T]) -> &'a T {
        &v[self.usize_below(v.len())]
    }

    /// k distinct indices out of 0..n (k <= n), in random order
    pub fn sample_indices(&mut self, n: usize, k: usize) -> Vec<usize> {
        let mut idx: Vec<usize> = (0..n).collect();
        let k = k.min(n);
        for i in 0..k {
            let j = i + self.usize_below(n - i);
            idx.swap(i, j);
        }
        idx.truncate(k);
        idx
    }
}
