//! Minimal JSON value, writer and parser (no external crates).

use std::collections::BTreeMap;
use std::fmt::Write;

#[derive(Clone, Debug, PartialEq)]
pub enum Json {
    Null,
    Bool(bool),
    Int(i64),
    Num(f64),
    Str(String),
    Arr(Vec<Json>),
    Obj(Vec<(String, Json)>),
}

impl Default for Json {
    fn default() -> Self {
        Json::Null
    }
}

impl Json {
    pub fn obj() -> Json {
        Json::Obj(Vec::new())
    }

    pub fn set(mut self, k: &str, v: Json) -> Json {
        if let Json::Obj(ref mut o) = self {
            if let Some(e) = o.iter_mut().find(|(kk, _)| kk == k) {
                e.1 = v;
            } else {
                o.push((k.to_string(), v));
            }
        }
        self
    }

    pub fn put(&mut self, k: &str, v: Json) {
        if let Json::Obj(ref mut o) = self {
            if let Some(e) = o.iter_mut().find(|(kk, _)| kk == k) {
                e.1 = v;
            } else {
                o.push((k.to_string(), v));
            }
        }
    }

    pub fn get(&self, k: &str) -> Option<&Json> {
        match self {
            Json::Obj(o) => o.iter().find(|(kk, _)| kk == k).map(|(_, v)| v),
            _ => None,
        }
    }

    pub fn as_str(&self) -> Option<&str> {
        match self {
            Json::Str(s) => Some(s),
            _ => None,
        }
    }

    pub fn as_i64(&self) -> Option<i64> {
        match self {
            Json::Int(i) => Some(*i),
            Json::Num(f) => Some(*f as i64),
            _ => None,
        }
    }

    pub fn as_arr(&self) -> Option<&Vec<Json>> {
        match self {
            Json::Arr(a) => Some(a),
            _ => None,
        }
    }

    pub fn s<S: Into<String>>(s: S) -> Json {
        Json::Str(s.into())
    }

    pub fn u(n: u64) -> Json {
        Json::Int(n as i64)
    }

    pub fn us(n: usize) -> Json {
        Json::Int(n as i64)
    }

    pub fn arr_u32(v: &[u32]) -> Json {
        Json::Arr(v.iter().map(|x| Json::Int(i64::from(*x))).collect())
    }

    pub fn arr_str<S: AsRef<str>>(v: &[S]) -> Json {
        Json::Arr(v.iter().map(|x| Json::Str(x.as_ref().to_string())).collect())
    }

    pub fn from_counts<K: AsRef<str>>(m: &BTreeMap<K, u64>) -> Json {
        Json::Obj(
            m.iter()
                .map(|(k, v)| (k.as_ref().to_string(), Json::Int(*v as i64)))
                .collect(),
        )
    }

    pub fn to_string(&self) -> String {
        let mut s = String::new();
        self.write(&mut s, 0, false);
        s
    }

    pub fn to_pretty(&self) -> String {
        let mut s = String::new();
        self.write(&mut s, 0, true);
        s.push('\n');
        s
    }

    fn write(&self, out: &mut String, indent: usize, pretty: bool) {
        match self {
            Json::Null => out.push_str("null"),
            Json::Bool(b) => out.push_str(if *b { "true" } else { "false" }),
            Json::Int(i) => {
                let _ = write!(out, "{i}");
            }
            Json::Num(f) => {
                if f.is_finite() {
                    let _ = write!(out, "{f:?}");
                } else {
                    // JSON has no NaN/inf: encode as string
                    let _ = write!(out, "\"{f}\"");
                }
            }
            Json::Str(s) => write_str(out, s),
            Json::Arr(a) => {
                if a.is_empty() {
                    out.push_str("[]");
                    return;
                }
                let simple = a
                    .iter()
                    .all(|x| !matches!(x, Json::Arr(_) | Json::Obj(_)));
                out.push('[');
                for (i, x) in a.iter().enumerate() {
                    if i > 0 {
                        out.push(',');
                        if pretty && simple {
                            out.push(' ');
                        }
                    }
                    if pretty && !simple {
                        out.push('\n');
                        pad(out, indent + 1);
                    }
                    x.write(out, indent + 1, pretty);
                }
                if pretty && !simple {
                    out.push('\n');
                    pad(out, indent);
                }
                out.push(']');
            }
            Json::Obj(o) => {
                if o.is_empty() {
                    out.push_str("{}");
                    return;
                }
                out.push('{');
                for (i, (k, v)) in o.iter().enumerate() {
                    if i > 0 {
                        out.push(',');
                    }
                    if pretty {
                        out.push('\n');
                        pad(out, indent + 1);
                    }
                    write_str(out, k);
                    out.push(':');
                    if pretty {
                        out.push(' ');
                    }
                    v.write(out, indent + 1, pretty);
                }
                if pretty {
                    out.push('\n');
                    pad(out, indent);
                }
                out.push('}');
            }
        }
    }

    pub fn parse(s: &str) -> Result<Json, String> {
        let b = s.as_bytes();
        let mut p = Parser { b, i: 0 };
        p.ws();
        let v = p.value()?;
        p.ws();
        if p.i != b.len() {
            return Err(format!("trailing data at {}", p.i));
        }
        Ok(v)
    }
}

fn pad(out: &mut String, n: usize) {
    for _ in 0..n {
        out.push(' ');
    }
}

fn write_str(out: &mut String, s: &str) {
    out.push('"');
    for c in s.chars() {
        match c {
            '"' => out.push_str("\\\""),
            '\\' => out.push_str("\\\\"),
            '\n' => out.push_str("\\n"),
            '\r' => out.push_str("\\r"),
            '\t' => out.push_str("\\t"),
            c if (c as u32) < 0x20 => {
                let _ = write!(out, "\\u{:04x}", c as u32);
            }
            c => out.push(c),
        }
    }
    out.push('"');
}

struct Parser<'a> {
    b: &'a [u8],
    i: usize,
}

impl Parser<'_> {
    fn ws(&mut self) {
        while self.i < self.b.len() && matches!(self.b[self.i], b' ' | b'\n' | b'\r' | b'\t') {
            self.i += 1;
        }
    }

    fn value(&mut self) -> Result<Json, String> {
        self.ws();
        if self.i >= self.b.len() {
            return Err("eof".into());
        }
        match self.b[self.i] {
            b'{' => {
                self.i += 1;
                let mut o = Vec::new();
                self.ws();
                if self.peek() == Some(b'}') {
                    self.i += 1;
                    return Ok(Json::Obj(o));
                }
                loop {
                    self.ws();
                    let k = match self.value()? {
                        Json::Str(s) => s,
                        _ => return Err("key must be string".into()),
                    };
                    self.ws();
                    if self.peek() != Some(b':') {
                        return Err(format!("expected : at {}", self.i));
                    }
                    self.i += 1;
                    let v = self.value()?;
                    o.push((k, v));
                    self.ws();
                    match self.peek() {
                        Some(b',') => self.i += 1,
                        Some(b'}') => {
                            self.i += 1;
                            return Ok(Json::Obj(o));
                        }
                        _ => return Err(format!("expected , or }} at {}", self.i)),
                    }
                }
            }
            b'[' => {
                self.i += 1;
                let mut a = Vec::new();
                self.ws();
                if self.peek() == Some(b']') {
                    self.i += 1;
                    return Ok(Json::Arr(a));
                }
                loop {
                    a.push(self.value()?);
                    self.ws();
                    match self.peek() {
                        Some(b',') => self.i += 1,
                        Some(b']') => {
                            self.i += 1;
                            return Ok(Json::Arr(a));
                        }
                        _ => return Err(format!("expected , or ] at {}", self.i)),
                    }
                }
            }
            b'"' => {
                self.i += 1;
                let mut s = String::new();
                loop {
                    if self.i >= self.b.len() {
                        return Err("eof in string".into());
                    }
                    let c = self.b[self.i];
                    self.i += 1;
                    match c {
                        b'"' => return Ok(Json::Str(s)),
                        b'\\' => {
                            let e = *self.b.get(self.i).ok_or("eof")?;
                            self.i += 1;
                            match e {
                                b'n' => s.push('\n'),
                                b't' => s.push('\t'),
                                b'r' => s.push('\r'),
                                b'b' => s.push('\u{8}'),
                                b'f' => s.push('\u{c}'),
                                b'/' => s.push('/'),
                                b'\\' => s.push('\\'),
                                b'"' => s.push('"'),
                                b'u' => {
                                    let h = std::str::from_utf8(
                                        self.b.get(self.i..self.i + 4).ok_or("eof")?,
                                    )
                                    .map_err(|e| e.to_string())?;
                                    let cp = u32::from_str_radix(h, 16).map_err(|e| e.to_string())?;
                                    self.i += 4;
                                    s.push(char::from_u32(cp).unwrap_or('\u{fffd}'));
                                }
                                _ => return Err("bad escape".into()),
                            }
                        }
                        _ => {
                            // copy raw utf8 byte sequence
                            let start = self.i - 1;
                            let mut end = self.i;
                            while end < self.b.len() && (self.b[end] & 0xC0) == 0x80 {
                                end += 1;
                            }
                            s.push_str(
                                std::str::from_utf8(&self.b[start..end]).map_err(|e| e.to_string())?,
                            );
                            self.i = end;
                        }
                    }
                }
            }
            b't' => self.lit("true", Json::Bool(true)),
            b'f' => self.lit("false", Json::Bool(false)),
            b'n' => self.lit("null", Json::Null),
            _ => {
                let start = self.i;
                while self.i < self.b.len()
                    && matches!(self.b[self.i], b'-' | b'+' | b'.' | b'e' | b'E' | b'0'..=b'9')
                {
                    self.i += 1;
                }
                let t = std::str::from_utf8(&self.b[start..self.i]).map_err(|e| e.to_string())?;
                if let Ok(i) = t.parse::<i64>() {
                    Ok(Json::Int(i))
                } else {
                    t.parse::<f64>()
                        .map(Json::Num)
                        .map_err(|_| format!("bad number '{t}' at {start}"))
                }
            }
        }
    }

    fn peek(&self) -> Option<u8> {
        self.b.get(self.i).copied()
    }

    fn lit(&mut self, w: &str, v: Json) -> Result<Json, String> {
        if self.b[self.i..].starts_with(w.as_bytes()) {
            self.i += w.len();
            Ok(v)
        } else {
            Err(format!("bad literal at {}", self.i))
        }
    }
}
