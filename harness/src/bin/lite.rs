//! hpo-verif-lite: the Ontology-free part of the workloads, small enough for Miri.
//! (every `Ontology` allocates an 80 MB id table, which Miri cannot interpret in useful time)
//!
//! usage: hpo-verif-lite <grp|str|rec> <shard> <count> <seed>
//! prints `LITE ok ...` or `LITE VIOLATION <signature> <detail>`; exit 1 on violation

#![allow(clippy::all)]
#![allow(dead_code)]

#[path = "../json.rs"]
mod json;
#[path = "../observe.rs"]
mod observe;
#[path = "../rng.rs"]
mod rng;
#[path = "../runner.rs"]
mod runner;
#[path = "../monitors/lite_mod.rs"]
mod monitors;

use hpo::annotations::{AnnotationId, Disease, Gene, GeneId, OmimDisease, OrphaDisease};
use runner::{CaseOut, Monitor, Tier};

fn record_case(rng: &mut rng::Rng, out: &mut CaseOut) {
    // record-level byte codecs: Gene / OmimDisease / OrphaDisease as_bytes -> try_from
    let names = ["", "A", "GENE1", "é", "漢字", "😀x", "name with spaces: and colon"];
    let mut name = (*rng.pick(&names)).to_string();
    if rng.chance(1, 3) {
        // around the 255 byte limit, multi-byte character straddling it
        name = format!("{}{}{}", "a".repeat(rng.urange(250, 256)), rng.pick(&["é", "€", "😀", "b"]), "z".repeat(rng.urange(0, 5)));
    }
    let id = rng.next_u64() as u32;
    let n_terms = rng.urange(0, 40);
    let terms: Vec<u32> = (0..n_terms).map(|_| rng.below(10_000_000) as u32).collect();
    let mut g = Gene::new(GeneId::from(id), &name);
    let mut o = OmimDisease::new(id.into(), &name);
    let mut p = OrphaDisease::new(id.into(), &name);
    for t in &terms {
        g.add_term(*t);
        o.add_term(*t);
        p.add_term(*t);
    }
    let gb = g.as_bytes();
    match Gene::try_from(&gb[..]) {
        Ok(g2) => {
            let name_ok = if name.len() <= 255 { g2.name() == name } else { name.starts_with(g2.name()) && g2.name().len() >= 252 };
            out.check(name_ok && g2.id().as_u32() == id && g2.hpo_terms().len() == g.hpo_terms().len(), "C07", "lite/gene_record_roundtrip", || {
                format!("gene record round trip changed the record (name {} bytes)", name.len())
            });
        }
        Err(e) => out.violate("C07", "lite/gene_record_rejected", format!("Gene::try_from(as_bytes()) = Err({e}) for a name of {} bytes", name.len())),
    }
    // every proper prefix of a record must be rejected without UB
    for k in 0..gb.len() {
        out.check(Gene::try_from(&gb[..k]).is_err(), "C08", "lite/gene_record_prefix_accepted", || format!("gene record prefix {k}/{} accepted", gb.len()));
    }
    let ob = o.as_bytes();
    match OmimDisease::try_from(&ob[..]) {
        Ok(o2) => out.check(o2.name() == name && o2.id().as_u32() == id && o2.hpo_terms().len() == o.hpo_terms().len(), "C07", "lite/omim_record_roundtrip", || "omim record round trip changed the record".to_string()),
        Err(e) => out.violate("C07", "lite/omim_record_rejected", format!("{e}")),
    }
    for k in 0..ob.len() {
        out.check(OmimDisease::try_from(&ob[..k]).is_err(), "C08", "lite/omim_record_prefix_accepted", || format!("omim record prefix {k}/{} accepted", ob.len()));
    }
    let pb = p.as_bytes();
    out.check(OrphaDisease::try_from(&pb[..]).is_ok_and(|p2| p2.name() == name && p2.id().as_u32() == id), "C07", "lite/orpha_record_roundtrip", || "orpha record round trip failed".to_string());
}

fn main() {
    let a: Vec<String> = std::env::args().collect();
    if a.len() < 5 {
        eprintln!("usage: hpo-verif-lite <grp|str|rec> <shard> <count> <seed>");
        std::process::exit(2);
    }
    let what = a[1].as_str();
    let shard: u64 = a[2].parse().unwrap();
    let count: u64 = a[3].parse().unwrap();
    let seed: u64 = a[4].parse().unwrap();
    let mut total = CaseOut::new();
    let mut ops = 0u64;
    for i in 0..count {
        let idx = shard * 1_000_000 + i;
        let mut out = CaseOut::new();
        match what {
            "grp" => {
                let label = if i == 0 { format!("grpcat:{}", shard % 12) } else if i == 1 { format!("grpexh:{}", shard % 64) } else { format!("grphist:{idx}") };
                let mut r = rng::Rng::for_case(seed, "C12", &label);
                monitors::group::run_case(&label, &mut r, Tier::Quick, &mut out);
            }
            "str" => {
                let label = if i == 0 && shard == 0 { "numeric:0".to_string() } else { format!("strlite:{idx}") };
                out = monitors::c20::lite_case(&label, seed);
            }
            _ => {
                let mut r = rng::Rng::for_case(seed, "rec", &format!("{idx}"));
                record_case(&mut r, &mut out);
            }
        }
        ops += out.events.values().sum::<u64>() + out.comparisons;
        total.comparisons += out.comparisons;
        for v in out.violations {
            println!("LITE VIOLATION {} {}", v.signature, v.detail);
            total.violations.push(v);
        }
    }
    println!("LITE {} {what} shard={shard} cases={count} checks={} ops={ops} violations={}", if total.violations.is_empty() { "ok" } else { "FAILED" }, total.comparisons, total.violations.len());
    std::process::exit(i32::from(!total.violations.is_empty()));
}

