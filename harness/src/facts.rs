//! FactSet: the ground truth a case is generated from.

use crate::json::Json;
use crate::rng::{hash_bytes, hash_u64s};
use std::collections::BTreeSet;

pub const GENE: usize = 0;
pub const OMIM: usize = 1;
pub const ORPHA: usize = 2;
pub const KIND_NAMES: [&str; 3] = ["gene", "omim", "orpha"];

#[derive(Clone, Debug, PartialEq, Eq)]
pub struct TermFact {
    pub id: u32,
    pub name: String,
    pub obsolete: bool,
    pub replaced_by: Option<u32>,
}

#[derive(Clone, Debug, PartialEq, Eq)]
pub struct RecFact {
    pub id: u32,
    pub name: String,
    /// directly annotated terms (may contain repeats = repeated facts)
    pub terms: Vec<u32>,
}

#[derive(Clone, Debug, Default, PartialEq, Eq)]
pub struct FactSet {
    pub terms: Vec<TermFact>,
    /// (child, parent); may contain repeats
    pub edges: Vec<(u32, u32)>,
    /// records per kind: [genes, omim, orpha]
    pub recs: [Vec<RecFact>; 3],
    pub version: (u16, u8, u8),
}

impl FactSet {
    pub fn term_ids(&self) -> BTreeSet<u32> {
        self.terms.iter().map(|t| t.id).collect()
    }

    pub fn has_defaults(&self) -> bool {
        let ids = self.term_ids();
        ids.contains(&1) && ids.contains(&118)
    }

    pub fn term(&self, id: u32) -> Option<&TermFact> {
        self.terms.iter().find(|t| t.id == id)
    }

    pub fn version_string(&self) -> String {
        format!(
            "{:0>4}-{:0>2}-{:0>2}",
            self.version.0, self.version.1, self.version.2
        )
    }

    /// What the public Builder API can express: no obsolete flag, no replacement
    pub fn builder_view(&self) -> FactSet {
        let mut f = self.clone();
        for t in &mut f.terms {
            t.obsolete = false;
            t.replaced_by = None;
        }
        f
    }

    /// What binary layout `v` (1, 2, 3) can carry
    pub fn binary_view(&self, v: u8) -> FactSet {
        let mut f = self.clone();
        if v < 3 {
            f.recs[ORPHA].clear();
        }
        if v < 2 {
            f.version = (0, 0, 0);
            for t in &mut f.terms {
                t.obsolete = false;
                t.replaced_by = None;
            }
        }
        f
    }

    /// canonical content hash (independent of supply order)
    pub fn content_hash(&self) -> u64 {
        let mut parts: Vec<u64> = Vec::new();
        let mut terms: Vec<&TermFact> = self.terms.iter().collect();
        terms.sort_by_key(|t| t.id);
        for t in terms {
            parts.push(u64::from(t.id));
            parts.push(hash_bytes(t.name.as_bytes()));
            parts.push(u64::from(t.obsolete));
            parts.push(u64::from(t.replaced_by.unwrap_or(u32::MAX)) + 1);
        }
        let edges: BTreeSet<(u32, u32)> = self.edges.iter().copied().collect();
        for (c, p) in edges {
            parts.push((u64::from(c) << 32) | u64::from(p));
        }
        for k in 0..3 {
            parts.push(0xAAAA_0000 + k as u64);
            let mut recs: Vec<&RecFact> = self.recs[k].iter().collect();
            recs.sort_by_key(|r| r.id);
            for r in recs {
                parts.push(u64::from(r.id));
                parts.push(hash_bytes(r.name.as_bytes()));
                let ts: BTreeSet<u32> = r.terms.iter().copied().collect();
                for t in ts {
                    parts.push(u64::from(t));
                }
                parts.push(u64::MAX);
            }
        }
        parts.push(u64::from(self.version.0));
        parts.push(u64::from(self.version.1));
        parts.push(u64::from(self.version.2));
        hash_u64s(&parts)
    }

    pub fn to_json(&self) -> Json {
        let terms = Json::Arr(
            self.terms
                .iter()
                .map(|t| {
                    let mut o = Json::obj()
                        .set("id", Json::u(u64::from(t.id)))
                        .set("name", Json::s(&t.name));
                    if t.obsolete {
                        o.put("obsolete", Json::Bool(true));
                    }
                    if let Some(r) = t.replaced_by {
                        o.put("replaced_by", Json::u(u64::from(r)));
                    }
                    o
                })
                .collect(),
        );
        let edges = Json::Arr(
            self.edges
                .iter()
                .map(|(c, p)| Json::arr_u32(&[*c, *p]))
                .collect(),
        );
        let mut o = Json::obj()
            .set("version", Json::s(self.version_string()))
            .set("terms", terms)
            .set("edges_child_parent", edges);
        for k in 0..3 {
            o.put(
                KIND_NAMES[k],
                Json::Arr(
                    self.recs[k]
                        .iter()
                        .map(|r| {
                            Json::obj()
                                .set("id", Json::u(u64::from(r.id)))
                                .set("name", Json::s(&r.name))
                                .set("terms", Json::arr_u32(&r.terms))
                        })
                        .collect(),
                ),
            );
        }
        o
    }

    /// short description for samples (sizes only + ids)
    pub fn summary(&self) -> Json {
        Json::obj()
            .set("n_terms", Json::us(self.terms.len()))
            .set("n_edges", Json::us(self.edges.len()))
            .set("n_genes", Json::us(self.recs[0].len()))
            .set("n_omim", Json::us(self.recs[1].len()))
            .set("n_orpha", Json::us(self.recs[2].len()))
            .set(
                "term_ids",
                Json::arr_u32(&self.terms.iter().map(|t| t.id).take(40).collect::<Vec<_>>()),
            )
    }
}
