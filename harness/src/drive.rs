//! Construction paths: Builder, bytes v1/v2/v3, JAX text (both loaders), as_bytes round trip.

use crate::codec::{encode, EncodeOpts};
use crate::facts::FactSet;
use crate::jax::{self, JaxOpts};
use crate::model::Model;
use crate::observe::{guard, PanicInfo};
use crate::rng::Rng;
use hpo::annotations::{GeneId, OmimDiseaseId, OrphaDiseaseId};
use hpo::builder::Builder;
use hpo::{HpoTermId, Ontology};
use std::path::PathBuf;
use std::sync::atomic::{AtomicU64, Ordering};

#[derive(Debug, Clone)]
pub enum BuildFail {
    Err(String),
    Panic(PanicInfo),
}

impl std::fmt::Display for BuildFail {
    fn fmt(&self, f: &mut std::fmt::Formatter<'_>) -> std::fmt::Result {
        match self {
            BuildFail::Err(e) => write!(f, "Err({e})"),
            BuildFail::Panic(p) => write!(f, "panic '{}' at {}", p.message, p.location),
        }
    }
}

pub type Built = Result<Ontology, BuildFail>;

fn flatten<T>(r: Result<Result<T, String>, PanicInfo>) -> Result<T, BuildFail> {
    match r {
        Ok(Ok(v)) => Ok(v),
        Ok(Err(e)) => Err(BuildFail::Err(e)),
        Err(p) => Err(BuildFail::Panic(p)),
    }
}

#[derive(Clone, Copy, Debug, PartialEq, Eq)]
pub enum OrderMode {
    AsGiven,
    Shuffled,
    /// terms/edges: descendants before ancestors
    ReverseTopo,
    /// annotation facts on ancestors first
    AncestorFirst,
    /// annotation facts on descendants first
    DescendantFirst,
    Reversed,
}

pub const ADVERSARIAL: [OrderMode; 4] = [
    OrderMode::ReverseTopo,
    OrderMode::AncestorFirst,
    OrderMode::DescendantFirst,
    OrderMode::Reversed,
];

/// A FactSet with the same content in another supply order
pub fn permute(f: &FactSet, mode: OrderMode, rng: &mut Rng) -> FactSet {
    let mut g = f.clone();
    match mode {
        OrderMode::AsGiven => {}
        OrderMode::Shuffled => {
            rng.shuffle(&mut g.terms);
            rng.shuffle(&mut g.edges);
            for k in 0..3 {
                rng.shuffle(&mut g.recs[k]);
                for r in &mut g.recs[k] {
                    rng.shuffle(&mut r.terms);
                }
            }
        }
        OrderMode::Reversed => {
            g.terms.reverse();
            g.edges.reverse();
            for k in 0..3 {
                g.recs[k].reverse();
                for r in &mut g.recs[k] {
                    r.terms.reverse();
                }
            }
        }
        OrderMode::ReverseTopo | OrderMode::AncestorFirst | OrderMode::DescendantFirst => {
            let m = Model::new(f, false);
            let depth = |id: &u32| m.anc.get(id).map_or(0, std::collections::BTreeSet::len);
            match mode {
                OrderMode::ReverseTopo => {
                    g.terms.sort_by_key(|t| std::cmp::Reverse(depth(&t.id)));
                    g.edges.sort_by_key(|(c, _)| std::cmp::Reverse(depth(c)));
                }
                OrderMode::AncestorFirst => {
                    for k in 0..3 {
                        for r in &mut g.recs[k] {
                            r.terms.sort_by_key(|t| depth(t));
                        }
                    }
                }
                _ => {
                    for k in 0..3 {
                        for r in &mut g.recs[k] {
                            r.terms.sort_by_key(|t| std::cmp::Reverse(depth(t)));
                        }
                    }
                }
            }
        }
    }
    g
}

/// Builder path. Annotation facts are issued record by record in FactSet order, or interleaved
/// at random across records and kinds when `interleave` is given.
pub fn via_builder(f: &FactSet, interleave: Option<&mut Rng>, defaults: bool) -> Built {
    via_builder_opts(f, interleave, defaults, false)
}

/// `vary_names`: later calls for an already registered record may use another name
pub fn via_builder_opts(f: &FactSet, interleave: Option<&mut Rng>, defaults: bool, vary_names: bool) -> Built {
    // flattened annotation calls: (kind, record index, Some(term) | None = add_* only)
    let mut calls: Vec<(usize, usize, Option<u32>)> = Vec::new();
    for k in 0..3 {
        for (i, r) in f.recs[k].iter().enumerate() {
            if r.terms.is_empty() {
                calls.push((k, i, None));
            }
            for t in &r.terms {
                calls.push((k, i, Some(*t)));
            }
        }
    }
    if let Some(rng) = interleave {
        // registering a record that is (or will be) annotated as well is documented to be harmless
        // ("adds the gene/disease" only if it does not exist yet): sprinkle such calls in
        for k in 0..3 {
            for (i, r) in f.recs[k].iter().enumerate() {
                if !r.terms.is_empty() && rng.chance(1, 4) {
                    calls.push((k, i, None));
                }
            }
        }
        rng.shuffle(&mut calls);
    }
    // Names: the first call for a record carries the record's name; later calls for the same
    // record may carry another spelling (a user merging two sources). The record and everything
    // linked to it so far must survive such a call.
    let mut call_names: Vec<Option<&'static str>> = vec![None; calls.len()];
    if vary_names {
        let mut seen: std::collections::BTreeSet<(usize, usize)> = std::collections::BTreeSet::new();
        let mut x: u64 = 0x9e37_79b9_7f4a_7c15 ^ (calls.len() as u64);
        for (n, (k, i, _)) in calls.iter().enumerate() {
            x = x.wrapping_mul(6_364_136_223_846_793_005).wrapping_add(1_442_695_040_888_963_407);
            if !seen.insert((*k, *i)) && (x >> 33) % 3 == 0 {
                call_names[n] = Some(if f.recs[*k][*i].name.is_empty() || (x >> 40) % 2 == 0 { "late name" } else { "" });
            }
        }
    }
    flatten(guard(|| -> Result<Ontology, String> {
        let mut b = Builder::new();
        for t in &f.terms {
            b.new_term(&t.name, t.id);
        }
        b.set_hpo_version(f.version);
        let mut b = b.terms_complete();
        // a user's call history also holds calls that are refused (a term id that was never added):
        // they are documented to fail and must leave no trace. Issued only when names vary, i.e. by the
        // monitors that model a realistic history; the ids are absent by construction.
        let present: std::collections::BTreeSet<u32> = f.terms.iter().map(|t| t.id).collect();
        let absent = |salt: u64| -> u32 {
            let mut x = 9_999_998u32.wrapping_sub((salt % 1000) as u32);
            while present.contains(&x) {
                x -= 1;
            }
            x
        };
        let refused_calls = vary_names && !f.terms.is_empty() && (calls.len() + f.edges.len()) % 4 == 0;
        for (n, (c, p)) in f.edges.iter().enumerate() {
            if refused_calls && n % 3 == 0 {
                if b.add_parent(absent(n as u64), *c).is_ok() || b.add_parent(*p, absent(n as u64 + 1)).is_ok() {
                    return Err(format!("add_parent with an absent term id was accepted (child {c}, parent {p})"));
                }
            }
            b.add_parent(*p, *c)
                .map_err(|e| format!("add_parent({p},{c}): {e}"))?;
        }
        let mut b = b.connect_all_terms();
        if refused_calls {
            let a = HpoTermId::from_u32(absent(7));
            if b.annotate_gene(GeneId::from(4_000_000_001u32), "refused", a).is_ok()
                || b.annotate_omim_disease(OmimDiseaseId::from(4_000_000_002u32), "refused", a).is_ok()
                || b.annotate_orpha_disease(OrphaDiseaseId::from(4_000_000_003u32), "refused", a).is_ok()
            {
                return Err("annotate_* with an absent term id was accepted".to_string());
            }
        }
        for (n, (k, i, t)) in calls.iter().enumerate() {
            let r = &f.recs[*k][*i];
            let name: &str = call_names[n].unwrap_or(r.name.as_str());
            match (k, t) {
                (0, None) => b.add_gene(name, GeneId::from(r.id)),
                (1, None) => {
                    b.add_omim_disease(name, OmimDiseaseId::from(r.id));
                }
                (2, None) => {
                    b.add_orpha_disease(name, OrphaDiseaseId::from(r.id));
                }
                (0, Some(t)) => b
                    .annotate_gene(GeneId::from(r.id), name, HpoTermId::from_u32(*t))
                    .map_err(|e| format!("annotate_gene: {e}"))?,
                (1, Some(t)) => b
                    .annotate_omim_disease(OmimDiseaseId::from(r.id), name, HpoTermId::from_u32(*t))
                    .map_err(|e| format!("annotate_omim_disease: {e}"))?,
                (_, Some(t)) => b
                    .annotate_orpha_disease(OrphaDiseaseId::from(r.id), name, HpoTermId::from_u32(*t))
                    .map_err(|e| format!("annotate_orpha_disease: {e}"))?,
                _ => unreachable!(),
            }
        }
        let b = b
            .calculate_information_content()
            .map_err(|e| format!("calculate_information_content: {e}"))?;
        if defaults {
            b.build_with_defaults()
                .map_err(|e| format!("build_with_defaults: {e}"))
        } else {
            Ok(b.build_minimal())
        }
    }))
}

/// Load binary data. One input in eight (chosen by a hash of the data, so that a replay takes the
/// same route) goes through a file and `Ontology::from_binary`, the others through `from_bytes`:
/// the two entry points are documented to read the same format.
pub fn from_bytes(bytes: &[u8]) -> Built {
    from_bytes_route(bytes, crate::rng::hash_bytes(bytes) % 8 == 0)
}

/// `via_file`: write the bytes to a file and load it with `Ontology::from_binary`
pub fn from_bytes_route(bytes: &[u8], via_file: bool) -> Built {
    if via_file {
        // the path is reused by all loads of one worker thread (a user overwriting "ontology.hpo" with a
        // newer release): what is loaded is what the file holds now
        let dir = work_root().join(format!("bin-{}-{:?}", std::process::id(), std::thread::current().id()).replace(['(', ')'], ""));
        if std::fs::create_dir_all(&dir).is_ok() {
            let path = dir.join("ontology.hpo");
            if std::fs::write(&path, bytes).is_ok() {
                let ps = path.to_string_lossy().to_string();
                let res = flatten(guard(|| Ontology::from_binary(&ps).map_err(|e| e.to_string())));
                let _ = std::fs::remove_file(&path);
                return res;
            }
        }
    }
    flatten(guard(|| Ontology::from_bytes(bytes).map_err(|e| e.to_string())))
}

/// Encode with the independent encoder and load with the library
pub fn via_bytes(f: &FactSet, version: u8) -> (Vec<u8>, Built) {
    let (bytes, _) = encode(
        f,
        &EncodeOpts {
            version,
            emit_empty_parent_records: true, parent_record_order: None, split_parent_records: None
        },
    );
    let b = from_bytes(&bytes);
    (bytes, b)
}

/// Like `via_bytes`, with a randomly chosen valid layout variant: parent records in an order of their
/// own, and parent records for all terms or only for terms that have parents
pub fn via_bytes_variant(f: &FactSet, version: u8, rng: &mut Rng) -> (Vec<u8>, Built) {
    let (bytes, _) = encode(
        f,
        &EncodeOpts {
            version,
            emit_empty_parent_records: rng.chance(2, 3),
            parent_record_order: if rng.chance(1, 2) { Some(rng.next_u64()) } else { None },
            split_parent_records: if rng.chance(1, 3) { Some(rng.next_u64()) } else { None },
        },
    );
    let b = from_bytes(&bytes);
    (bytes, b)
}

/// Two files of equal length written one after the other to the SAME path and each loaded with
/// `Ontology::from_binary` right after it was written
pub fn from_binary_twice_same_path(first: &[u8], second: &[u8]) -> Option<(Built, Built)> {
    let dir = scratch_dir("samepath");
    std::fs::create_dir_all(&dir).ok()?;
    let path = dir.join("ontology.hpo");
    let ps = path.to_string_lossy().to_string();
    let mut res = Vec::new();
    for b in [first, second] {
        if std::fs::write(&path, b).is_err() {
            let _ = std::fs::remove_dir_all(&dir);
            return None;
        }
        res.push(flatten(guard(|| Ontology::from_binary(&ps).map_err(|e| e.to_string()))));
    }
    let _ = std::fs::remove_dir_all(&dir);
    let second = res.pop()?;
    let first = res.pop()?;
    Some((first, second))
}

pub fn as_bytes(ont: &Ontology) -> Result<Vec<u8>, PanicInfo> {
    guard(|| ont.as_bytes())
}

static DIR_COUNTER: AtomicU64 = AtomicU64::new(0);

pub fn work_root() -> PathBuf {
    if let Ok(w) = std::env::var("VERIF_WORK") {
        return PathBuf::from(w);
    }
    let root = std::env::var("VERIF_ROOT").unwrap_or_else(|_| "/verif".to_string());
    PathBuf::from(root).join("work")
}

pub fn scratch_dir(tag: &str) -> PathBuf {
    let n = DIR_COUNTER.fetch_add(1, Ordering::Relaxed);
    work_root().join(format!("{tag}-{}-{n}", std::process::id()))
}

/// JAX text path. `transitive` selects `from_standard_transitive` (phenotype_to_genes.txt).
pub fn via_jax(f: &FactSet, rng: &mut Rng, o: &JaxOpts, transitive: bool, tag: &str) -> Built {
    let dir = scratch_dir(tag);
    if let Err(e) = jax::write_dir(&dir, f, rng, o) {
        return Err(BuildFail::Err(format!("harness io error: {e}")));
    }
    let d = dir.to_string_lossy().to_string();
    let res = flatten(guard(|| {
        if transitive {
            Ontology::from_standard_transitive(&d).map_err(|e| e.to_string())
        } else {
            Ontology::from_standard(&d).map_err(|e| e.to_string())
        }
    }));
    let _ = std::fs::remove_dir_all(&dir);
    res
}
