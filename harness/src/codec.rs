//! Independent binary encoder AND decoder for layouts v1, v2, v3 (written from the format
//! documentation in the doc comments, not by calling the library).

use crate::facts::{FactSet, RecFact, TermFact};
use std::collections::BTreeMap;

fn be32(out: &mut Vec<u8>, v: u32) {
    out.extend_from_slice(&v.to_be_bytes());
}

/// Section boundaries of an encoded file (byte offsets), for targeted fault injection
#[derive(Clone, Debug, Default)]
pub struct Layout {
    pub header_len: usize,
    /// (start of the 4-byte length field, end of section payload) per section
    pub sections: Vec<(usize, usize)>,
    /// start offsets of every record inside the sections
    pub record_starts: Vec<usize>,
}

#[derive(Clone, Debug)]
pub struct EncodeOpts {
    /// 1, 2 or 3
    pub version: u8,
    /// emit a parent record also for terms without parents (as `as_bytes` does)
    pub emit_empty_parent_records: bool,
    /// order of the records inside the parents section: None = same order as the term records,
    /// Some(seed) = an independent pseudo-random order
    pub parent_record_order: Option<u64>,
    /// None = one parent record per term (the library's own style); Some(seed) = the links of a term
    /// may be spread over several records of the section (one record per link, arbitrary splits,
    /// an additional record without parents), placed anywhere in the section
    pub split_parent_records: Option<u64>,
}

/// Encode the facts in exactly the order they appear in the FactSet.
/// Parent records are emitted per term in term order; the parents of a term in edge order.
pub fn encode(f: &FactSet, opts: &EncodeOpts) -> (Vec<u8>, Layout) {
    let v = opts.version;
    let mut out: Vec<u8> = Vec::new();
    let mut layout = Layout::default();
    if v >= 2 {
        out.extend_from_slice(b"HPO");
        out.push(v);
        out.extend_from_slice(&f.version.0.to_be_bytes());
        out.push(f.version.1);
        out.push(f.version.2);
    }
    layout.header_len = out.len();

    // --- terms
    let mut sec: Vec<u8> = Vec::new();
    let mut rel: Vec<usize> = Vec::new();
    for t in &f.terms {
        rel.push(sec.len());
        let name = t.name.as_bytes();
        assert!(name.len() <= 255, "encoder: term names must fit the u8 length");
        if v == 1 {
            be32(&mut sec, (9 + name.len()) as u32);
            be32(&mut sec, t.id);
            sec.push(name.len() as u8);
            sec.extend_from_slice(name);
        } else {
            be32(&mut sec, (14 + name.len()) as u32);
            be32(&mut sec, t.id);
            sec.push(name.len() as u8);
            sec.extend_from_slice(name);
            sec.push(u8::from(t.obsolete));
            be32(&mut sec, t.replaced_by.unwrap_or(0));
        }
    }
    push_section(&mut out, &mut layout, &sec, &rel);

    // --- parents
    let mut by_child: BTreeMap<u32, Vec<u32>> = BTreeMap::new();
    for (c, p) in &f.edges {
        let e = by_child.entry(*c).or_default();
        if !e.contains(p) {
            e.push(*p);
        }
    }
    sec.clear();
    rel.clear();
    let mut parent_order: Vec<&crate::facts::TermFact> = f.terms.iter().collect();
    if let Some(seed) = opts.parent_record_order {
        let mut r = crate::rng::Rng::new(seed);
        r.shuffle(&mut parent_order);
    }
    // (child, parents) records
    let mut records: Vec<(u32, Vec<u32>)> = Vec::new();
    for t in parent_order {
        let ps = by_child.get(&t.id).cloned().unwrap_or_default();
        if ps.is_empty() && !opts.emit_empty_parent_records {
            continue;
        }
        records.push((t.id, ps));
    }
    if let Some(seed) = opts.split_parent_records {
        let mut r = crate::rng::Rng::new(seed);
        let mut split: Vec<(u32, Vec<u32>)> = Vec::new();
        for (c, ps) in records {
            if ps.len() < 2 && !r.chance(1, 4) {
                // single-link and empty records mostly stay; sometimes an extra empty record joins
                split.push((c, ps));
                continue;
            }
            match r.below(3) {
                0 => {
                    // one record per link
                    for p in &ps {
                        split.push((c, vec![*p]));
                    }
                    if ps.is_empty() {
                        split.push((c, vec![]));
                    }
                }
                1 => {
                    // two chunks
                    let cut = if ps.is_empty() { 0 } else { r.urange(0, ps.len()) };
                    split.push((c, ps[..cut].to_vec()));
                    split.push((c, ps[cut..].to_vec()));
                }
                _ => {
                    // the full record and an additional record without parents
                    if r.chance(1, 2) {
                        split.push((c, vec![]));
                        split.push((c, ps));
                    } else {
                        split.push((c, ps));
                        split.push((c, vec![]));
                    }
                }
            }
        }
        if r.chance(1, 2) {
            r.shuffle(&mut split);
        }
        records = split;
    }
    for (c, ps) in records {
        rel.push(sec.len());
        be32(&mut sec, ps.len() as u32);
        be32(&mut sec, c);
        for p in ps {
            be32(&mut sec, p);
        }
    }
    push_section(&mut out, &mut layout, &sec, &rel);

    // --- genes
    sec.clear();
    rel.clear();
    for r in &f.recs[0] {
        rel.push(sec.len());
        let terms = dedup(&r.terms);
        let name = r.name.as_bytes();
        assert!(name.len() <= 255, "encoder: gene names must fit the u8 length");
        be32(&mut sec, (4 + 4 + 1 + name.len() + 4 + 4 * terms.len()) as u32);
        be32(&mut sec, r.id);
        sec.push(name.len() as u8);
        sec.extend_from_slice(name);
        be32(&mut sec, terms.len() as u32);
        for t in terms {
            be32(&mut sec, t);
        }
    }
    push_section(&mut out, &mut layout, &sec, &rel);

    // --- diseases
    let kinds: &[usize] = if v >= 3 { &[1, 2] } else { &[1] };
    for k in kinds {
        sec.clear();
        rel.clear();
        for r in &f.recs[*k] {
            rel.push(sec.len());
            let terms = dedup(&r.terms);
            let name = r.name.as_bytes();
            be32(&mut sec, (4 + 4 + 4 + name.len() + 4 + 4 * terms.len()) as u32);
            be32(&mut sec, r.id);
            be32(&mut sec, name.len() as u32);
            sec.extend_from_slice(name);
            be32(&mut sec, terms.len() as u32);
            for t in terms {
                be32(&mut sec, t);
            }
        }
        push_section(&mut out, &mut layout, &sec, &rel);
    }
    (out, layout)
}

fn dedup(v: &[u32]) -> Vec<u32> {
    let mut out = Vec::new();
    for x in v {
        if !out.contains(x) {
            out.push(*x);
        }
    }
    out
}

fn push_section(out: &mut Vec<u8>, layout: &mut Layout, sec: &[u8], rel: &[usize]) {
    let start = out.len();
    be32(out, sec.len() as u32);
    let payload = out.len();
    out.extend_from_slice(sec);
    layout.sections.push((start, out.len()));
    for r in rel {
        layout.record_starts.push(payload + r);
    }
}

// ---------------------------------------------------------------------------------------------
// decoder

struct Cur<'a> {
    b: &'a [u8],
    i: usize,
}

impl<'a> Cur<'a> {
    fn u32(&mut self) -> Result<u32, String> {
        let s = self
            .b
            .get(self.i..self.i + 4)
            .ok_or_else(|| format!("eof reading u32 at {}", self.i))?;
        self.i += 4;
        Ok(u32::from_be_bytes([s[0], s[1], s[2], s[3]]))
    }
    fn u8(&mut self) -> Result<u8, String> {
        let v = *self.b.get(self.i).ok_or_else(|| format!("eof at {}", self.i))?;
        self.i += 1;
        Ok(v)
    }
    fn bytes(&mut self, n: usize) -> Result<&'a [u8], String> {
        let s = self
            .b
            .get(self.i..self.i + n)
            .ok_or_else(|| format!("eof reading {n} bytes at {}", self.i))?;
        self.i += n;
        Ok(s)
    }
    fn section(&mut self) -> Result<Cur<'a>, String> {
        let n = self.u32()? as usize;
        Ok(Cur {
            b: self.bytes(n)?,
            i: 0,
        })
    }
    fn done(&self) -> bool {
        self.i == self.b.len()
    }
}

/// Decode a file strictly according to the documented layout. Returns (version, facts).
/// Record order is preserved so that `encode(decode(x)) == x` for files written in the
/// library's canonical style.
pub fn decode(bytes: &[u8]) -> Result<(u8, FactSet), String> {
    let mut f = FactSet::default();
    let (v, mut cur) = if bytes.len() >= 4 && &bytes[0..3] == b"HPO" {
        let v = bytes[3];
        if v != 2 && v != 3 {
            return Err(format!("unsupported version {v}"));
        }
        let mut c = Cur { b: bytes, i: 4 };
        let y = c.bytes(2)?;
        f.version.0 = u16::from_be_bytes([y[0], y[1]]);
        f.version.1 = c.u8()?;
        f.version.2 = c.u8()?;
        (v, c)
    } else {
        (1u8, Cur { b: bytes, i: 0 })
    };

    let mut s = cur.section()?;
    while !s.done() {
        let start = s.i;
        let total = s.u32()? as usize;
        let id = s.u32()?;
        let nl = s.u8()? as usize;
        let name = String::from_utf8(s.bytes(nl)?.to_vec()).map_err(|e| e.to_string())?;
        let (obsolete, replaced_by) = if v >= 2 {
            let flags = s.u8()?;
            let r = s.u32()?;
            (flags & 1 == 1, if r == 0 { None } else { Some(r) })
        } else {
            (false, None)
        };
        if s.i - start != total {
            return Err(format!("term record length mismatch at {start}"));
        }
        f.terms.push(TermFact {
            id,
            name,
            obsolete,
            replaced_by,
        });
    }
    let mut s = cur.section()?;
    while !s.done() {
        let n = s.u32()? as usize;
        let child = s.u32()?;
        for _ in 0..n {
            let p = s.u32()?;
            f.edges.push((child, p));
        }
    }
    let mut s = cur.section()?;
    while !s.done() {
        let start = s.i;
        let total = s.u32()? as usize;
        let id = s.u32()?;
        let nl = s.u8()? as usize;
        let name = String::from_utf8(s.bytes(nl)?.to_vec()).map_err(|e| e.to_string())?;
        let nt = s.u32()? as usize;
        let mut terms = Vec::new();
        for _ in 0..nt {
            terms.push(s.u32()?);
        }
        if s.i - start != total {
            return Err(format!("gene record length mismatch at {start}"));
        }
        f.recs[0].push(RecFact { id, name, terms });
    }
    let kinds: &[usize] = if v >= 3 { &[1, 2] } else { &[1] };
    for k in kinds {
        let mut s = cur.section()?;
        while !s.done() {
            let start = s.i;
            let total = s.u32()? as usize;
            let id = s.u32()?;
            let nl = s.u32()? as usize;
            let name = String::from_utf8(s.bytes(nl)?.to_vec()).map_err(|e| e.to_string())?;
            let nt = s.u32()? as usize;
            let mut terms = Vec::new();
            for _ in 0..nt {
                terms.push(s.u32()?);
            }
            if s.i - start != total {
                return Err(format!("disease record length mismatch at {start}"));
            }
            f.recs[*k].push(RecFact { id, name, terms });
        }
    }
    if !cur.done() {
        return Err(format!("{} trailing bytes", cur.b.len() - cur.i));
    }
    Ok((v, f))
}
