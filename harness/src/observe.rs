//! Observation walk: the whole read API of an `Ontology` is called (under catch_unwind) and
//! recorded into a canonical `Obs`. Every call is an *event*; a panic becomes an event, not a crash.

use crate::json::Json;
use hpo::annotations::{AnnotationId, Disease, GeneId, OmimDiseaseId, OrphaDiseaseId};
use hpo::term::InformationContentKind;
use hpo::{HpoTermId, Ontology};
use std::cell::RefCell;
use std::collections::{BTreeMap, BTreeSet};
use std::panic::{catch_unwind, AssertUnwindSafe};

pub type Counters = BTreeMap<&'static str, u64>;

pub fn bump(c: &mut Counters, k: &'static str) {
    *c.entry(k).or_insert(0) += 1;
}
pub fn bump_n(c: &mut Counters, k: &'static str, n: u64) {
    *c.entry(k).or_insert(0) += n;
}
pub fn merge(into: &mut Counters, from: &Counters) {
    for (k, v) in from {
        *into.entry(k).or_insert(0) += v;
    }
}

thread_local! {
    static LAST_PANIC: RefCell<Option<(String, String)>> = const { RefCell::new(None) };
}

/// Install a process-wide silent panic hook which records message + location per thread.
pub fn install_panic_hook() {
    std::panic::set_hook(Box::new(|info| {
        let msg = if let Some(s) = info.payload().downcast_ref::<&str>() {
            (*s).to_string()
        } else if let Some(s) = info.payload().downcast_ref::<String>() {
            s.clone()
        } else {
            "<non-string panic>".to_string()
        };
        let loc = info
            .location()
            .map(|l| format!("{}:{}", l.file(), l.line()))
            .unwrap_or_default();
        LAST_PANIC.with(|p| *p.borrow_mut() = Some((msg, loc)));
    }));
}

#[derive(Clone, Debug)]
pub struct PanicInfo {
    pub message: String,
    pub location: String,
}

impl PanicInfo {
    /// true if the panic originated in the harness rather than in hpo / its dependencies
    pub fn in_harness(&self) -> bool {
        self.location.starts_with("src/") && !self.location.contains("/repo/")
    }
}

/// Run `f`, converting a panic into `Err(PanicInfo)`.
pub fn guard<T>(f: impl FnOnce() -> T) -> Result<T, PanicInfo> {
    LAST_PANIC.with(|p| *p.borrow_mut() = None);
    match catch_unwind(AssertUnwindSafe(f)) {
        Ok(v) => Ok(v),
        Err(_) => {
            let (message, location) = LAST_PANIC
                .with(|p| p.borrow_mut().take())
                .unwrap_or_else(|| ("<unknown>".into(), String::new()));
            Err(PanicInfo { message, location })
        }
    }
}

#[derive(Clone, Debug, Default, PartialEq)]
pub struct TermObs {
    pub id: u32,
    pub name: String,
    pub obsolete: bool,
    pub replacement: Option<u32>,
    pub parents: Vec<u32>,
    pub children: Vec<u32>,
    pub ancestors: Vec<u32>,
    /// linked record ids per kind (sorted)
    pub links: [Vec<u32>; 3],
    pub ic: [f32; 3],
    pub is_modifier: bool,
    pub categories: Vec<u32>,
}

#[derive(Clone, Debug, Default, PartialEq)]
pub struct RecObs {
    pub id: u32,
    pub name: String,
    pub terms: Vec<u32>,
}

#[derive(Clone, Debug)]
pub struct PanicEvent {
    pub accessor: &'static str,
    pub id: u32,
    pub info: PanicInfo,
}

#[derive(Clone, Debug, Default)]
pub struct Obs {
    pub version: String,
    pub len: usize,
    pub terms: BTreeMap<u32, TermObs>,
    pub recs: [BTreeMap<u32, RecObs>; 3],
    pub categories: Vec<u32>,
    pub modifier: Vec<u32>,
    /// panics raised by accessors during the walk
    pub panics: Vec<PanicEvent>,
    /// internal inconsistencies between twin accessors (site, detail)
    pub anomalies: Vec<(&'static str, String)>,
}

fn ids_of_group(g: &hpo::term::HpoGroup) -> Vec<u32> {
    g.iter().map(|t| t.as_u32()).collect()
}

fn strictly_ascending(v: &[u32]) -> bool {
    v.windows(2).all(|w| w[0] < w[1])
}

fn sorted_set<I: IntoIterator<Item = u32>>(it: I) -> Vec<u32> {
    let s: BTreeSet<u32> = it.into_iter().collect();
    s.into_iter().collect()
}

const KINDS: [InformationContentKind; 3] = [
    InformationContentKind::Gene,
    InformationContentKind::Omim,
    InformationContentKind::Orpha,
];

/// Walk the whole read API. `extra_ids` are additional term ids to look up (facts).
pub fn walk(ont: &Ontology, extra_ids: &[u32], ev: &mut Counters) -> Obs {
    let mut obs = Obs::default();

    macro_rules! g {
        ($acc:expr, $id:expr, $default:expr, $body:expr) => {{
            bump(ev, $acc);
            match guard(|| $body) {
                Ok(v) => v,
                Err(info) => {
                    obs.panics.push(PanicEvent {
                        accessor: $acc,
                        id: $id,
                        info,
                    });
                    $default
                }
            }
        }};
    }

    obs.version = g!("Ontology::hpo_version", 0, String::from("<panic>"), ont.hpo_version());
    obs.len = g!("Ontology::len", 0, usize::MAX, ont.len());
    obs.categories = g!("Ontology::categories", 0, vec![], ids_of_group(ont.categories()));
    obs.modifier = g!("Ontology::modifier", 0, vec![], ids_of_group(ont.modifier()));
    if !strictly_ascending(&obs.categories) {
        obs.anomalies
            .push(("group_order", format!("Ontology::categories not ascending: {:?}", obs.categories)));
    }
    if !strictly_ascending(&obs.modifier) {
        obs.anomalies
            .push(("group_order", format!("Ontology::modifier not ascending: {:?}", obs.modifier)));
    }

    // iteration
    let iter_ids: Vec<u32> = g!(
        "Ontology::iter",
        0,
        vec![],
        ont.iter().map(|t| t.id().as_u32()).collect::<Vec<u32>>()
    );
    {
        let set: BTreeSet<u32> = iter_ids.iter().copied().collect();
        if set.len() != iter_ids.len() {
            obs.anomalies
                .push(("iter_duplicates", format!("iter yielded {} items, {} distinct", iter_ids.len(), set.len())));
        }
        if iter_ids.len() != obs.len {
            obs.anomalies
                .push(("iter_len", format!("iter().count()={} len()={}", iter_ids.len(), obs.len)));
        }
        let via_into: Vec<u32> = g!(
            "&Ontology::into_iter",
            0,
            vec![],
            ont.into_iter().map(|t| t.id().as_u32()).collect::<Vec<u32>>()
        );
        if via_into != iter_ids {
            obs.anomalies
                .push(("iter_twin", "iter() and into_iter() differ".to_string()));
        }
    }

    let mut all_ids: BTreeSet<u32> = iter_ids.iter().copied().collect();
    for id in extra_ids {
        all_ids.insert(*id);
    }

    for id in all_ids {
        let term = g!("Ontology::hpo", id, None, ont.hpo(id));
        let Some(term) = term else {
            continue;
        };
        let mut t = TermObs::default();
        t.id = g!("HpoTerm::id", id, u32::MAX, term.id().as_u32());
        t.name = g!("HpoTerm::name", id, String::from("<panic>"), term.name().to_string());
        t.obsolete = g!("HpoTerm::is_obsolete", id, false, term.is_obsolete());
        t.replacement = g!(
            "HpoTerm::replacement_id",
            id,
            None,
            term.replacement_id().map(|r| r.as_u32())
        );
        // replaced_by() resolves the replacement; must agree when the replacement exists
        let rb = g!(
            "HpoTerm::replaced_by",
            id,
            None,
            term.replaced_by().map(|r| r.id().as_u32())
        );
        if let Some(r) = rb {
            if Some(r) != t.replacement {
                obs.anomalies.push((
                    "replaced_by_twin",
                    format!("term {id}: replaced_by()={r} replacement_id()={:?}", t.replacement),
                ));
            }
        }

        t.parents = g!("HpoTerm::parent_ids", id, vec![], ids_of_group(term.parent_ids()));
        t.children = g!("HpoTerm::children_ids", id, vec![], ids_of_group(term.children_ids()));
        t.ancestors = g!(
            "HpoTerm::all_parent_ids",
            id,
            vec![],
            ids_of_group(term.all_parent_ids())
        );
        for (what, v) in [
            ("parent_ids", &t.parents),
            ("children_ids", &t.children),
            ("all_parent_ids", &t.ancestors),
        ] {
            if !strictly_ascending(v) {
                obs.anomalies
                    .push(("group_order", format!("term {id}: {what} not strictly ascending: {v:?}")));
            }
        }
        // resolving iterators
        let p2 = g!(
            "HpoTerm::parents",
            id,
            None,
            Some(term.parents().map(|p| p.id().as_u32()).collect::<Vec<u32>>())
        );
        if let Some(p2) = p2 {
            if p2 != t.parents {
                obs.anomalies
                    .push(("resolve_twin_terms", format!("term {id}: parents() {p2:?} != parent_ids() {:?}", t.parents)));
            }
        }
        let c2 = g!(
            "HpoTerm::children",
            id,
            None,
            Some(term.children().map(|p| p.id().as_u32()).collect::<Vec<u32>>())
        );
        if let Some(c2) = c2 {
            if c2 != t.children {
                obs.anomalies
                    .push(("resolve_twin_terms", format!("term {id}: children() {c2:?} != children_ids() {:?}", t.children)));
            }
        }
        let a2 = g!(
            "HpoTerm::all_parents",
            id,
            None,
            Some(term.all_parents().map(|p| p.id().as_u32()).collect::<Vec<u32>>())
        );
        if let Some(a2) = a2 {
            if a2 != t.ancestors {
                obs.anomalies.push((
                    "resolve_twin_terms",
                    format!("term {id}: all_parents() {a2:?} != all_parent_ids() {:?}", t.ancestors),
                ));
            }
        }

        // annotations: id sets and resolving iterators
        t.links[0] = g!(
            "HpoTerm::gene_ids",
            id,
            vec![],
            sorted_set(term.gene_ids().iter().map(|g| g.as_u32()))
        );
        t.links[1] = g!(
            "HpoTerm::omim_disease_ids",
            id,
            vec![],
            sorted_set(term.omim_disease_ids().iter().map(|g| g.as_u32()))
        );
        t.links[2] = g!(
            "HpoTerm::orpha_disease_ids",
            id,
            vec![],
            sorted_set(term.orpha_disease_ids().iter().map(|g| g.as_u32()))
        );
        let r0 = g!(
            "HpoTerm::genes",
            id,
            None,
            Some(sorted_set(term.genes().map(|g| g.id().as_u32())))
        );
        let r1 = g!(
            "HpoTerm::omim_diseases",
            id,
            None,
            Some(sorted_set(term.omim_diseases().map(|g| g.id().as_u32())))
        );
        let r2 = g!(
            "HpoTerm::orpha_diseases",
            id,
            None,
            Some(sorted_set(term.orpha_diseases().map(|g| g.id().as_u32())))
        );
        for (k, r) in [r0, r1, r2].into_iter().enumerate() {
            if let Some(r) = r {
                if r != t.links[k] {
                    obs.anomalies.push((
                        "resolve_twin_records",
                        format!("term {id}: kind {k} resolving iterator {r:?} != id set {:?}", t.links[k]),
                    ));
                }
            }
        }

        // information content
        let ic = g!("HpoTerm::information_content", id, None, {
            let ic = term.information_content();
            Some((
                [ic.gene(), ic.omim_disease(), ic.orpha_disease()],
                [
                    ic.get_kind(&KINDS[0]),
                    ic.get_kind(&KINDS[1]),
                    ic.get_kind(&KINDS[2]),
                ],
            ))
        });
        if let Some((direct, by_kind)) = ic {
            t.ic = direct;
            for k in 0..3 {
                if direct[k].to_bits() != by_kind[k].to_bits() {
                    obs.anomalies.push((
                        "ic_get_kind",
                        format!("term {id}: get_kind({k})={} accessor={}", by_kind[k], direct[k]),
                    ));
                }
            }
        } else {
            t.ic = [f32::NAN; 3];
        }

        t.is_modifier = g!("HpoTerm::is_modifier", id, false, term.is_modifier());
        t.categories = g!(
            "HpoTerm::categories",
            id,
            vec![],
            term.categories().iter().map(|c| c.as_u32()).collect::<Vec<u32>>()
        );

        if t.id != id {
            obs.anomalies
                .push(("lookup_id", format!("hpo({id}) returned term with id {}", t.id)));
        }
        obs.terms.insert(id, t);
    }

    // records
    {
        let ids: Vec<u32> = g!(
            "Ontology::genes",
            0,
            vec![],
            ont.genes().map(|g| g.id().as_u32()).collect::<Vec<u32>>()
        );
        let set: BTreeSet<u32> = ids.iter().copied().collect();
        if set.len() != ids.len() {
            obs.anomalies
                .push(("rec_iter_duplicates", "genes() yields duplicates".into()));
        }
        for id in set {
            let r = g!("Ontology::gene", id, None, {
                ont.gene(&GeneId::from(id)).map(|g| RecObs {
                    id: g.id().as_u32(),
                    name: g.name().to_string(),
                    terms: ids_of_group(g.hpo_terms()),
                })
            });
            if let Some(r) = r {
                if !strictly_ascending(&r.terms) {
                    obs.anomalies
                        .push(("group_order", format!("gene {id}: hpo_terms not ascending")));
                }
                // to_hpo_set resolves every direct term
                let hs = g!("Gene::to_hpo_set.iter", id, None, {
                    let g = ont.gene(&GeneId::from(id)).unwrap();
                    let set = g.to_hpo_set(ont);
                    Some(set.iter().map(|t| t.id().as_u32()).collect::<Vec<u32>>())
                });
                if let Some(hs) = hs {
                    if hs != r.terms {
                        obs.anomalies
                            .push(("resolve_twin_records", format!("gene {id}: to_hpo_set {hs:?} != hpo_terms {:?}", r.terms)));
                    }
                }
                if r.id != id {
                    obs.anomalies
                        .push(("lookup_id", format!("gene({id}) returned id {}", r.id)));
                }
                let sym = g!("Gene::symbol", id, None, {
                    let g = ont.gene(&GeneId::from(id)).unwrap();
                    Some(g.symbol().to_string())
                });
                if let Some(sym) = sym {
                    if sym != r.name {
                        obs.anomalies
                            .push(("gene_symbol", format!("gene {id}: symbol() != name()")));
                    }
                }
                obs.recs[0].insert(id, r);
            } else {
                obs.anomalies
                    .push(("rec_lookup", format!("genes() yields {id} but gene({id}) is None")));
            }
        }
    }
    {
        let ids: Vec<u32> = g!(
            "Ontology::omim_diseases",
            0,
            vec![],
            ont.omim_diseases().map(|g| g.id().as_u32()).collect::<Vec<u32>>()
        );
        let set: BTreeSet<u32> = ids.iter().copied().collect();
        if set.len() != ids.len() {
            obs.anomalies
                .push(("rec_iter_duplicates", "omim_diseases() yields duplicates".into()));
        }
        for id in set {
            let r = g!("Ontology::omim_disease", id, None, {
                ont.omim_disease(&OmimDiseaseId::from(id)).map(|g| RecObs {
                    id: g.id().as_u32(),
                    name: g.name().to_string(),
                    terms: ids_of_group(g.hpo_terms()),
                })
            });
            if let Some(r) = r {
                if !strictly_ascending(&r.terms) {
                    obs.anomalies
                        .push(("group_order", format!("omim {id}: hpo_terms not ascending")));
                }
                let hs = g!("OmimDisease::to_hpo_set.iter", id, None, {
                    let g = ont.omim_disease(&OmimDiseaseId::from(id)).unwrap();
                    let set = g.to_hpo_set(ont);
                    Some(set.iter().map(|t| t.id().as_u32()).collect::<Vec<u32>>())
                });
                if let Some(hs) = hs {
                    if hs != r.terms {
                        obs.anomalies
                            .push(("resolve_twin_records", format!("omim {id}: to_hpo_set {hs:?} != hpo_terms {:?}", r.terms)));
                    }
                }
                if r.id != id {
                    obs.anomalies
                        .push(("lookup_id", format!("omim_disease({id}) returned id {}", r.id)));
                }
                obs.recs[1].insert(id, r);
            } else {
                obs.anomalies
                    .push(("rec_lookup", format!("omim_diseases() yields {id} but lookup is None")));
            }
        }
    }
    {
        let ids: Vec<u32> = g!(
            "Ontology::orpha_diseases",
            0,
            vec![],
            ont.orpha_diseases().map(|g| g.id().as_u32()).collect::<Vec<u32>>()
        );
        let set: BTreeSet<u32> = ids.iter().copied().collect();
        if set.len() != ids.len() {
            obs.anomalies
                .push(("rec_iter_duplicates", "orpha_diseases() yields duplicates".into()));
        }
        for id in set {
            let r = g!("Ontology::orpha_disease", id, None, {
                ont.orpha_disease(&OrphaDiseaseId::from(id)).map(|g| RecObs {
                    id: g.id().as_u32(),
                    name: g.name().to_string(),
                    terms: ids_of_group(g.hpo_terms()),
                })
            });
            if let Some(r) = r {
                if !strictly_ascending(&r.terms) {
                    obs.anomalies
                        .push(("group_order", format!("orpha {id}: hpo_terms not ascending")));
                }
                let hs = g!("OrphaDisease::to_hpo_set.iter", id, None, {
                    let g = ont.orpha_disease(&OrphaDiseaseId::from(id)).unwrap();
                    let set = g.to_hpo_set(ont);
                    Some(set.iter().map(|t| t.id().as_u32()).collect::<Vec<u32>>())
                });
                if let Some(hs) = hs {
                    if hs != r.terms {
                        obs.anomalies
                            .push(("resolve_twin_records", format!("orpha {id}: to_hpo_set {hs:?} != hpo_terms {:?}", r.terms)));
                    }
                }
                if r.id != id {
                    obs.anomalies
                        .push(("lookup_id", format!("orpha_disease({id}) returned id {}", r.id)));
                }
                obs.recs[2].insert(id, r);
            } else {
                obs.anomalies
                    .push(("rec_lookup", format!("orpha_diseases() yields {id} but lookup is None")));
            }
        }
    }

    // every linked record id must resolve (checked via id sets, independent of the resolving iterators)
    for t in obs.terms.values() {
        for k in 0..3 {
            for r in &t.links[k] {
                if !obs.recs[k].contains_key(r) {
                    obs.anomalies.push((
                        "dangling_record",
                        format!("term {} links kind {k} record {r} which does not exist", t.id),
                    ));
                }
            }
        }
    }
    obs
}

#[derive(Clone, Debug)]
pub struct Diff {
    /// static site id (part of the finding signature)
    pub site: String,
    pub detail: String,
}

pub fn ic_close(observed: f32, expected: f64) -> bool {
    let o = f64::from(observed);
    if !o.is_finite() {
        return false;
    }
    (o - expected).abs() <= 1e-6 * expected.abs().max(1.0)
}

/// Compare an expected Obs (from the model) with an observed Obs.
/// IC values of `expected` are compared with tolerance.
pub fn diff(expected: &Obs, observed: &Obs, out: &mut Vec<Diff>, comparisons: &mut u64) {
    macro_rules! cmp {
        ($site:expr, $e:expr, $o:expr, $($what:tt)*) => {{
            *comparisons += 1;
            if $e != $o {
                out.push(Diff { site: $site.to_string(), detail: format!("{}: expected {:?}, observed {:?}", format!($($what)*), $e, $o) });
            }
        }};
    }
    cmp!("version", expected.version, observed.version, "hpo_version");
    cmp!("len", expected.len, observed.len, "len");
    cmp!("ont_categories", expected.categories, observed.categories, "Ontology::categories");
    cmp!("ont_modifier", expected.modifier, observed.modifier, "Ontology::modifier");
    let eids: Vec<u32> = expected.terms.keys().copied().collect();
    let oids: Vec<u32> = observed.terms.keys().copied().collect();
    cmp!("term_set", eids, oids, "set of terms");
    for (id, e) in &expected.terms {
        let Some(o) = observed.terms.get(id) else {
            continue;
        };
        cmp!("term_name", e.name, o.name, "term {id} name");
        cmp!("term_obsolete", e.obsolete, o.obsolete, "term {id} obsolete");
        cmp!("term_replacement", e.replacement, o.replacement, "term {id} replacement");
        cmp!("parents", e.parents, o.parents, "term {id} parents");
        cmp!("children", e.children, o.children, "term {id} children");
        cmp!("ancestors", e.ancestors, o.ancestors, "term {id} ancestors");
        cmp!("links_gene", e.links[0], o.links[0], "term {id} genes");
        cmp!("links_omim", e.links[1], o.links[1], "term {id} omim");
        cmp!("links_orpha", e.links[2], o.links[2], "term {id} orpha");
        for k in 0..3 {
            *comparisons += 1;
            if !ic_close(o.ic[k], f64::from(e.ic[k])) {
                out.push(Diff {
                    site: ["ic_gene", "ic_omim", "ic_orpha"][k].to_string(),
                    detail: format!("term {id} ic kind {k}: expected {}, observed {}", e.ic[k], o.ic[k]),
                });
            }
        }
        cmp!("is_modifier", e.is_modifier, o.is_modifier, "term {id} is_modifier");
        cmp!("term_categories", e.categories, o.categories, "term {id} categories");
    }
    for k in 0..3 {
        let eids: Vec<u32> = expected.recs[k].keys().copied().collect();
        let oids: Vec<u32> = observed.recs[k].keys().copied().collect();
        cmp!(
            ["gene_set", "omim_set", "orpha_set"][k],
            eids,
            oids,
            "set of records of kind {k}"
        );
        for (id, e) in &expected.recs[k] {
            let Some(o) = observed.recs[k].get(id) else {
                continue;
            };
            cmp!(
                ["gene_name", "omim_name", "orpha_name"][k],
                e.name,
                o.name,
                "record kind {k} id {id} name"
            );
            cmp!(
                ["gene_terms", "omim_terms", "orpha_terms"][k],
                e.terms,
                o.terms,
                "record kind {k} id {id} direct terms"
            );
        }
    }
    for (site, detail) in &observed.anomalies {
        *comparisons += 1;
        out.push(Diff {
            site: (*site).to_string(),
            detail: detail.clone(),
        });
    }
    for p in &observed.panics {
        out.push(Diff {
            site: format!("panic:{}", p.accessor),
            detail: format!(
                "{}({}) panicked: {} at {}",
                p.accessor, p.id, p.info.message, p.info.location
            ),
        });
    }
}

pub fn term_to_json(t: &TermObs) -> Json {
    Json::obj()
        .set("id", Json::u(u64::from(t.id)))
        .set("name", Json::s(&t.name))
        .set("obsolete", Json::Bool(t.obsolete))
        .set(
            "replacement",
            t.replacement.map_or(Json::Null, |r| Json::u(u64::from(r))),
        )
        .set("parents", Json::arr_u32(&t.parents))
        .set("children", Json::arr_u32(&t.children))
        .set("ancestors", Json::arr_u32(&t.ancestors))
        .set("genes", Json::arr_u32(&t.links[0]))
        .set("omim", Json::arr_u32(&t.links[1]))
        .set("orpha", Json::arr_u32(&t.links[2]))
        .set(
            "ic",
            Json::Arr(t.ic.iter().map(|x| Json::Num(f64::from(*x))).collect()),
        )
        .set("is_modifier", Json::Bool(t.is_modifier))
        .set("categories", Json::arr_u32(&t.categories))
}

pub fn hid(id: u32) -> HpoTermId {
    HpoTermId::from_u32(id)
}
