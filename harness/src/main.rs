//! hpo-verif: runtime monitors for the properties C01..C20 of anergictcell/hpo.
//!
//! usage: hpo-verif run <ID> <quick|thorough> [--seed N] [--jobs N]
//!        hpo-verif replay <file>

#![allow(clippy::all)]
#![allow(dead_code)]

mod codec;
mod drive;
mod facts;
mod gen;
mod jax;
mod json;
mod model;
mod monitors;
mod observe;
mod rng;
mod runner;

use runner::{RunCfg, Tier};

fn main() {
    let args: Vec<String> = std::env::args().collect();
    let verif_root = std::env::var("VERIF_ROOT").unwrap_or_else(|_| "/verif".to_string());
    let env_seed: u64 = std::env::var("VERIF_SEED")
        .ok()
        .and_then(|s| s.parse().ok())
        .unwrap_or(1);
    let jobs_default: usize = std::env::var("VERIF_JOBS")
        .ok()
        .and_then(|s| s.parse().ok())
        .unwrap_or_else(|| std::thread::available_parallelism().map_or(8, |n| n.get()).min(16));
    observe::install_panic_hook();
    let _ = std::fs::create_dir_all(drive::work_root());

    if args.len() >= 3 && args[1] == "replay" {
        let text = std::fs::read_to_string(&args[2]).unwrap_or_else(|e| {
            println!("INCONCLUSIVE cannot read replay file: {e}");
            std::process::exit(2);
        });
        let j = json::Json::parse(&text).unwrap_or_else(|e| {
            println!("INCONCLUSIVE cannot parse replay file: {e}");
            std::process::exit(2);
        });
        let id = j.get("property").and_then(json::Json::as_str).unwrap_or("").to_string();
        let label = j.get("label").and_then(json::Json::as_str).unwrap_or("").to_string();
        let seed = j.get("seed").and_then(json::Json::as_i64).unwrap_or(1) as u64;
        let tier = match j.get("tier").and_then(json::Json::as_str) {
            Some("thorough") => Tier::Thorough,
            _ => Tier::Quick,
        };
        let Some(mon) = monitors::get(&id) else {
            println!("INCONCLUSIVE unknown property {id}");
            std::process::exit(2);
        };
        let cfg = RunCfg {
            tier,
            seed,
            jobs: 1,
            verif_root,
            only_label: Some(label),
        };
        std::process::exit(runner::run(mon.as_ref(), &cfg));
    }

    if args.len() < 4 || args[1] != "run" {
        eprintln!("usage: hpo-verif run <ID> <quick|thorough> [--seed N] [--jobs N] | hpo-verif replay <file>");
        std::process::exit(2);
    }
    let id = args[2].clone();
    let tier = match args[3].as_str() {
        "quick" => Tier::Quick,
        "thorough" => Tier::Thorough,
        other => {
            eprintln!("unknown tier {other}");
            std::process::exit(2);
        }
    };
    let mut seed = env_seed;
    let mut jobs = jobs_default;
    let mut only: Option<String> = None;
    let mut i = 4;
    while i < args.len() {
        match args[i].as_str() {
            "--seed" => {
                seed = args[i + 1].parse().expect("seed");
                i += 2;
            }
            "--jobs" => {
                jobs = args[i + 1].parse().expect("jobs");
                i += 2;
            }
            "--only" => {
                only = Some(args[i + 1].clone());
                jobs = 1;
                i += 2;
            }
            _ => i += 1,
        }
    }
    let Some(mon) = monitors::get(&id) else {
        println!("INCONCLUSIVE unknown property {id}");
        std::process::exit(2);
    };
    let cfg = RunCfg {
        tier,
        seed,
        jobs,
        verif_root,
        only_label: only,
    };
    std::process::exit(runner::run(mon.as_ref(), &cfg));
}
