//! Hostile generators: DAG shapes, id assignments, names, annotation facts.

use crate::facts::{FactSet, RecFact, TermFact};
use crate::model::Model;
use crate::rng::Rng;
use std::collections::BTreeSet;

#[derive(Clone, Copy, Debug, PartialEq, Eq)]
pub enum Shape {
    Chain,
    Star,
    Tree,
    Ladder,
    Redundant,
    MultiRoot,
    Wide,
    Deep,
    RandomSparse,
    RandomDense,
    Layered,
}

pub const ALL_SHAPES: [Shape; 11] = [
    Shape::Chain,
    Shape::Star,
    Shape::Tree,
    Shape::Ladder,
    Shape::Redundant,
    Shape::MultiRoot,
    Shape::Wide,
    Shape::Deep,
    Shape::RandomSparse,
    Shape::RandomDense,
    Shape::Layered,
];

#[derive(Clone, Copy, Debug, PartialEq, Eq)]
pub enum IdMode {
    Ascending,
    Descending,
    Sparse,
    Dense,
    Borders,
    /// small ids mixed with ids of the form 65536*j + c and 2^k +- c (collide under sloppy packing / truncation)
    Packed,
}

pub const ALL_ID_MODES: [IdMode; 6] = [
    IdMode::Ascending,
    IdMode::Descending,
    IdMode::Sparse,
    IdMode::Dense,
    IdMode::Borders,
    IdMode::Packed,
];

#[derive(Clone, Copy, Debug, PartialEq, Eq)]
pub enum NameMode {
    Ascii,
    Mixed,
}

#[derive(Clone, Debug)]
pub struct GenCfg {
    pub n_min: usize,
    pub n_max: usize,
    /// include HP:0000001 and HP:0000118
    pub defaults: bool,
    pub shape: Option<Shape>,
    pub id_mode: Option<IdMode>,
    /// generate obsolete flags / replacements
    pub flags: bool,
    pub annotations: bool,
    /// upper bound on the number of distinct upward chains between any two terms
    pub max_paths: Option<u64>,
    pub names: NameMode,
    /// max records per kind
    pub max_recs: usize,
    /// allow records without any term
    pub empty_recs: bool,
    /// allow term id 0 / border ids
    pub allow_zero_id: bool,
    /// allow replaced_by ids that do not resolve to a term of the ontology
    pub dangling_replacement: bool,
}

impl Default for GenCfg {
    fn default() -> Self {
        GenCfg {
            n_min: 1,
            n_max: 30,
            defaults: false,
            shape: None,
            id_mode: None,
            flags: false,
            annotations: true,
            max_paths: None,
            names: NameMode::Mixed,
            max_recs: 8,
            empty_recs: true,
            allow_zero_id: true,
            dangling_replacement: true,
        }
    }
}

/// node i has parents with smaller index (hidden topological order)
#[derive(Clone, Debug)]
pub struct Graph {
    pub parents: Vec<Vec<usize>>,
}

impl Graph {
    pub fn n(&self) -> usize {
        self.parents.len()
    }
}

pub fn gen_graph(rng: &mut Rng, n: usize, shape: Shape) -> Graph {
    let mut parents: Vec<Vec<usize>> = vec![Vec::new(); n];
    let add = |parents: &mut Vec<Vec<usize>>, c: usize, p: usize| {
        if p < c && !parents[c].contains(&p) {
            parents[c].push(p);
        }
    };
    match shape {
        Shape::Chain | Shape::Deep => {
            for i in 1..n {
                add(&mut parents, i, i - 1);
            }
        }
        Shape::Star => {
            for i in 1..n {
                add(&mut parents, i, 0);
            }
        }
        Shape::Tree => {
            let b = rng.urange(2, 4);
            for i in 1..n {
                add(&mut parents, i, (i - 1) / b);
            }
        }
        Shape::Ladder => {
            // stacked diamonds: top, (l, r), join, (l, r), join ...
            // node 0 top; then groups of 3: l, r with parent = previous join; join with parents l, r
            let mut join = 0usize;
            let mut i = 1;
            let mut rungs = 0;
            while i + 2 < n && rungs < 9 {
                add(&mut parents, i, join);
                add(&mut parents, i + 1, join);
                add(&mut parents, i + 2, i);
                add(&mut parents, i + 2, i + 1);
                join = i + 2;
                i += 3;
                rungs += 1;
            }
            while i < n {
                let p = rng.usize_below(i);
                add(&mut parents, i, p);
                i += 1;
            }
        }
        Shape::Redundant => {
            // chains with shortcut edges to grandparents / higher ancestors
            for i in 1..n {
                add(&mut parents, i, i - 1);
                if i >= 2 && rng.chance(1, 2) {
                    let p = rng.usize_below(i - 1);
                    add(&mut parents, i, p);
                }
                if i >= 3 && rng.chance(1, 4) {
                    add(&mut parents, i, 0);
                }
            }
        }
        Shape::MultiRoot => {
            let roots = rng.urange(2, 4).min(n.max(1));
            for i in roots..n {
                let k = rng.urange(1, 2);
                for _ in 0..k {
                    let p = rng.usize_below(i);
                    add(&mut parents, i, p);
                }
            }
        }
        Shape::Wide => {
            // three tiers: grandparents (children of node 0 or further roots), parents with one or two
            // grandparents each (so that different parents have DIFFERENT ancestors), and wide nodes with
            // many direct parents (beyond the inline hints 10 / 30)
            let g_end = (n / 5).max(2).min(n);
            let p_end = (n * 2 / 3).max(g_end + 1).min(n);
            for i in 1..g_end {
                if rng.chance(2, 3) {
                    add(&mut parents, i, 0);
                }
            }
            for i in g_end..p_end {
                let k = rng.urange(1, 2);
                for _ in 0..k {
                    let gp = rng.usize_below(g_end);
                    add(&mut parents, i, gp);
                }
            }
            let base = p_end - g_end;
            for i in p_end..n {
                let k = if base > 34 && (i == n - 1 || rng.chance(1, 3)) { rng.urange(31, base.min(40)) } else { rng.urange(1, base.min(14)) };
                for p in rng.sample_indices(base, k) {
                    add(&mut parents, i, g_end + p);
                }
            }
        }
        Shape::RandomSparse | Shape::RandomDense => {
            let dense = shape == Shape::RandomDense;
            for i in 1..n {
                if !dense && rng.chance(1, 12) {
                    continue; // extra root
                }
                let kmax = if dense { 4 } else { 2 };
                let k = rng.urange(1, kmax);
                for _ in 0..k {
                    // bias to recent nodes makes deep graphs
                    let p = if rng.chance(1, 2) {
                        i - 1 - rng.usize_below(i.min(3))
                    } else {
                        rng.usize_below(i)
                    };
                    add(&mut parents, i, p);
                }
            }
        }
        Shape::Layered => {
            // layers of width w; each node links to 1..3 nodes of the previous layer, sometimes skipping a layer
            let w = rng.urange(2, 5);
            for i in 1..n {
                let layer = (i - 1) / w + 1; // node 0 is layer 0
                let (lo, hi) = if layer == 1 {
                    (0, 1)
                } else {
                    ((layer - 2) * w + 1, ((layer - 1) * w + 1).min(i))
                };
                let k = rng.urange(1, 3);
                for _ in 0..k {
                    let p = lo + rng.usize_below((hi - lo).max(1));
                    add(&mut parents, i, p);
                }
                if layer >= 3 && rng.chance(1, 5) {
                    let p = rng.usize_below((layer - 2) * w + 1);
                    add(&mut parents, i, p);
                }
            }
        }
    }
    Graph { parents }
}

const SYL: [&str; 24] = [
    "ab", "nor", "mal", "ity", "of", "the", "neur", "on", "card", "io", "hep", "at", "ren", "al",
    "derm", "oste", "my", "op", "path", "y", "hypo", "hyper", "plasia", "trophy",
];
const MULTI: [&str; 8] = ["é", "ü", "ß", "漢", "字", "😀", "Ω", "ñ"];

pub fn gen_name(rng: &mut Rng, mode: NameMode) -> String {
    let words = rng.urange(1, 4);
    let mut s = String::new();
    for w in 0..words {
        if w > 0 {
            s.push(' ');
        }
        let syl = rng.urange(1, 3);
        for _ in 0..syl {
            s.push_str(*rng.pick(&SYL));
        }
        if mode == NameMode::Mixed && rng.chance(1, 6) {
            s.push_str(*rng.pick(&MULTI));
        }
    }
    if mode == NameMode::Mixed && rng.chance(1, 12) {
        // the HPO convention names retired terms "obsolete ..."; the name is only a name, whether a
        // term is obsolete is carried by its flag
        s = format!("{}{s}", *rng.pick(&["obsolete ", "Obsolete ", "obsolete", "OBSOLETE "]));
    }
    if mode == NameMode::Mixed && rng.chance(1, 25) {
        s.push_str(*rng.pick(&["\t", "\n", "\"", "\\", "\u{0}", " "]));
        s.push_str(*rng.pick(&SYL));
    }
    if mode == NameMode::Mixed && rng.chance(1, 10) {
        // names containing ": " (the obo key/value separator)
        s.push_str(": ");
        s.push_str(*rng.pick(&SYL));
    }
    s
}

/// distinct term ids for n nodes
fn assign_ids(rng: &mut Rng, n: usize, mode: IdMode, defaults: bool, allow_zero: bool) -> Vec<u32> {
    let reserved: BTreeSet<u32> = if defaults { [1u32, 118].into() } else { BTreeSet::new() };
    let first_free = if defaults { 2 } else { 0 };
    let mut ids: Vec<u32> = Vec::with_capacity(n);
    if defaults {
        ids.push(1);
        if n > 1 {
            ids.push(118);
        }
    }
    let need = n - ids.len();
    let mut pool: Vec<u32> = Vec::with_capacity(need);
    let mut used: BTreeSet<u32> = reserved.clone();
    let mut take = |v: u32, pool: &mut Vec<u32>, used: &mut BTreeSet<u32>| {
        if used.insert(v) {
            pool.push(v);
            true
        } else {
            false
        }
    };
    match mode {
        IdMode::Ascending | IdMode::Descending | IdMode::Dense => {
            let start = if allow_zero && !defaults && rng.chance(1, 4) { 0 } else { rng.range(1, 50) as u32 };
            let mut v = start;
            while pool.len() < need {
                take(v, &mut pool, &mut used);
                v += if mode == IdMode::Dense { 1 } else { rng.range(1, 40) as u32 };
            }
            if mode == IdMode::Descending {
                pool.reverse();
            } else if mode == IdMode::Dense {
                rng.shuffle(&mut pool);
            }
        }
        IdMode::Sparse => {
            while pool.len() < need {
                let v = rng.range(1, 9_999_999) as u32;
                take(v, &mut pool, &mut used);
            }
        }
        IdMode::Packed => {
            let mut cand: Vec<u32> = Vec::new();
            for c in 2..=9u32 {
                cand.push(c);
            }
            for j in 1..=6u32 {
                for c in 2..=6u32 {
                    cand.push(65_536 * j + c);
                }
            }
            for k in [8u32, 16, 20, 23] {
                for c in 0..3u32 {
                    cand.push((1 << k) + c);
                    cand.push((1 << k) - 1 - c);
                }
            }
            cand.retain(|c| *c < 10_000_000);
            rng.shuffle(&mut cand);
            for c in cand {
                if pool.len() < need {
                    take(c, &mut pool, &mut used);
                }
            }
            while pool.len() < need {
                let v = rng.range(1, 9_999_999) as u32;
                take(v, &mut pool, &mut used);
            }
        }
        IdMode::Borders => {
            let mut cand: Vec<u32> = vec![9_999_999, 9_999_998, 2, 3, 117, 119, 5_000_000];
            if allow_zero {
                cand.push(0);
            }
            if !defaults {
                cand.push(1);
            }
            rng.shuffle(&mut cand);
            for c in cand {
                if pool.len() < need {
                    take(c, &mut pool, &mut used);
                }
            }
            while pool.len() < need {
                let v = rng.range(1, 9_999_999) as u32;
                take(v, &mut pool, &mut used);
            }
            rng.shuffle(&mut pool);
        }
    }
    let _ = first_free;
    ids.extend(pool);
    ids
}

pub fn gen_records(rng: &mut Rng, f: &mut FactSet, cfg: &GenCfg) {
    let ids: Vec<u32> = f.terms.iter().map(|t| t.id).collect();
    if ids.is_empty() {
        return;
    }
    // record counts: pairwise different where possible, sometimes zero
    let mut counts = [0usize; 3];
    let mut tries = 0;
    loop {
        for c in &mut counts {
            *c = if rng.chance(1, 8) { 0 } else { rng.urange(1, cfg.max_recs.max(1)) };
        }
        tries += 1;
        let distinct = counts[0] != counts[1] && counts[1] != counts[2] && counts[0] != counts[2];
        if distinct || tries > 6 {
            break;
        }
    }
    let m = Model::new(f, false);
    for k in 0..3 {
        // overlapping numeric ids across kinds: a small pool
        let pool_hi = (cfg.max_recs as u32 + 4).max(4);
        let mut rec_ids: BTreeSet<u32> = BTreeSet::new();
        while rec_ids.len() < counts[k] {
            let id = match rng.below(24) {
                0 => rng.range(1, u64::from(u32::MAX)) as u32,
                1 => 65_536 * (rng.range(1, 3) as u32) + rng.range(1, u64::from(pool_hi)) as u32,
                2 => (1u32 << [16, 24, 31][rng.usize_below(3)]) + rng.range(0, 3) as u32,
                3 => u32::MAX - rng.range(0, 3) as u32,
                4 => 0,
                _ => rng.range(1, u64::from(pool_hi)) as u32,
            };
            rec_ids.insert(id);
        }
        let mut recs: Vec<RecFact> = Vec::new();
        for rid in rec_ids {
            let name = match k {
                0 => format!("G{}{}", rid, if rng.chance(1, 5) { rng.pick(&MULTI) } else { "" }),
                1 => format!("omim {} {}", rid, gen_name(rng, cfg.names)),
                _ => format!("orpha {} {}", rid, gen_name(rng, cfg.names)),
            };
            // empty names and the placeholder-looking "-" are legal names
            let name = match rng.below(40) {
                0 => String::new(),
                1 => "-".to_string(),
                // a name that reads like a keyword of the text formats
                2 => (*rng.pick(&["NOT", "NOT", "OMIM:1", "HP:0000001", "#comment"])).to_string(),
                // leading / trailing white space belongs to the name (binary format and Builder; the
                // text formats' renderer trims it)
                3 if cfg.names == NameMode::Mixed => format!("{}{name}{}", rng.pick(&[" ", "\t", "", "  "]), rng.pick(&[" ", "\n", "", "\t "])),
                4 if cfg.names == NameMode::Mixed => (*rng.pick(&[" ", "\t", " \n "])).to_string(),
                // disease names have no 255-byte limit in any format
                5 if k != 0 => format!("{name} {}", "long disease name ".repeat(rng.urange(15, 40))),
                _ => name,
            };
            let mut terms: Vec<u32> = Vec::new();
            let nt = if cfg.empty_recs && rng.chance(1, 6) {
                0
            } else if ids.len() > 31 && rng.chance(1, 10) {
                // more direct terms than the inline capacity (30) of the record's term group
                rng.urange(31, ids.len().min(45))
            } else {
                rng.urange(1, 4)
            };
            for _ in 0..nt {
                let t = *rng.pick(&ids);
                terms.push(t);
                // annotate an ancestor as well (ancestors already linked through the child)
                if rng.chance(1, 4) {
                    let anc: Vec<u32> = m.anc[&t].iter().copied().collect();
                    if !anc.is_empty() {
                        terms.push(*rng.pick(&anc));
                    }
                }
                // annotate a descendant afterwards (inner node first, child later)
                if rng.chance(1, 4) {
                    let d: Vec<u32> = m.desc[&t].iter().copied().collect();
                    if !d.is_empty() {
                        terms.push(*rng.pick(&d));
                    }
                }
                // repeated fact
                if rng.chance(1, 8) {
                    terms.push(t);
                }
            }
            recs.push(RecFact { id: rid, name, terms });
        }
        // sometimes make one term carry every record of the kind (IC = 0)
        if !recs.is_empty() && rng.chance(1, 5) {
            let t = *rng.pick(&ids);
            for r in &mut recs {
                r.terms.push(t);
            }
        }
        f.recs[k] = recs;
    }
}

pub fn gen_facts(rng: &mut Rng, cfg: &GenCfg) -> FactSet {
    for _attempt in 0..50 {
        let shape = cfg.shape.unwrap_or_else(|| *rng.pick(&ALL_SHAPES));
        let mut n = rng.urange(cfg.n_min.max(if cfg.defaults { 2 } else { 1 }), cfg.n_max.max(2));
        let id_mode = cfg.id_mode.unwrap_or_else(|| *rng.pick(&ALL_ID_MODES));
        if shape == Shape::Wide && (id_mode == IdMode::Dense || rng.chance(1, 3)) {
            n = rng.urange(80, 90); // enough potential parents for a term with more than 30 of them
        }
        if shape == Shape::Deep {
            // deep chains cross the inline capacity of the ancestor small-vector (30) twice over
            n = rng.urange(63, 80);
        }
        let mut g = gen_graph(rng, n, shape);
        if cfg.defaults && n > 1 {
            // node 1 is HP:118; usually a child of HP:1, sometimes not (C19 variants)
            if !g.parents[1].contains(&0) && !rng.chance(1, 12) {
                g.parents[1].push(0);
            }
        }
        // disconnected singletons that become obsolete terms
        let n_single = if cfg.flags { rng.urange(0, 3) } else { usize::from(rng.chance(1, 4)) };
        let total = n + n_single;
        let ids = assign_ids(rng, total, id_mode, cfg.defaults, cfg.allow_zero_id);
        let mut f = FactSet::default();
        f.version = if rng.chance(1, 5) {
            // the binary header carries any u16 / u8 / u8
            (
                *rng.pick(&[0u16, 1, 999, 9999, 10_000, 65_535]),
                *rng.pick(&[0u8, 1, 12, 13, 99, 255]),
                *rng.pick(&[0u8, 1, 31, 32, 99, 255]),
            )
        } else {
            (rng.range(1990, 2030) as u16, rng.range(1, 12) as u8, rng.range(1, 31) as u8)
        };
        let mut used_names: BTreeSet<String> = BTreeSet::new();
        for (i, id) in ids.iter().enumerate() {
            let mut name = if cfg.defaults && *id == 1 {
                "All".to_string()
            } else if cfg.defaults && *id == 118 {
                "Phenotypic abnormality".to_string()
            } else {
                gen_name(rng, cfg.names)
            };
            if rng.chance(1, 30) && !(cfg.defaults && (*id == 1 || *id == 118)) {
                name = String::new(); // empty names are legal in the binary format
            }
            if !name.is_empty() && !used_names.insert(name.clone()) && !rng.chance(1, 3) {
                // two terms may share a name; mostly they are made distinct
                name.push_str(&format!(" {i}"));
                used_names.insert(name.clone());
            }
            f.terms.push(TermFact {
                id: *id,
                name,
                obsolete: false,
                replaced_by: None,
            });
        }
        for (c, ps) in g.parents.iter().enumerate() {
            for p in ps {
                f.edges.push((ids[c], ids[*p]));
            }
        }
        // repeated edge facts
        if !f.edges.is_empty() && rng.chance(1, 6) {
            let e = *rng.pick(&f.edges);
            f.edges.push(e);
        }
        if cfg.flags {
            for i in n..total {
                f.terms[i].obsolete = true;
                if rng.chance(2, 3) && n > 0 {
                    let r = rng.usize_below(total);
                    // id 0 cannot be named as a replacement: the binary format encodes "none" as 0
                    if r != i && ids[r] != 0 {
                        f.terms[i].replaced_by = Some(ids[r]);
                    }
                }
            }
            if cfg.dangling_replacement {
                for i in 0..total {
                    // a term that names itself as its replacement
                    if ids[i] != 0 && !(cfg.defaults && i < 2) && rng.chance(1, 14) {
                        f.terms[i].replaced_by = Some(ids[i]);
                    }
                }
                for i in n..total {
                    if rng.chance(1, 10) {
                        // a replacement that names no term of this ontology
                        f.terms[i].replaced_by = Some(*rng.pick(&[9_999_990u32, 123_456, u32::MAX, 10_000_000]));
                    }
                }
            }
            // occasionally flags on connected terms too
            for i in 0..n {
                if cfg.defaults && i < 2 {
                    continue;
                }
                if rng.chance(1, 15) {
                    f.terms[i].obsolete = true;
                }
                if rng.chance(1, 20) {
                    let r = rng.usize_below(total);
                    if r != i && ids[r] != 0 {
                        f.terms[i].replaced_by = Some(ids[r]);
                    }
                }
                // a connected term whose replacement is not a term of this ontology
                if cfg.dangling_replacement && rng.chance(1, 25) {
                    f.terms[i].replaced_by = Some(*rng.pick(&[9_999_991u32, 654_321, u32::MAX - 1, 10_000_001]));
                }
            }
        }
        if let Some(cap) = cfg.max_paths {
            let m = Model::new(&f, false);
            if m.max_path_count(cap * 4) > cap {
                continue;
            }
        }
        if cfg.annotations {
            gen_records(rng, &mut f, cfg);
        }
        return f;
    }
    // fall back to a small chain (always satisfies path caps)
    let mut c = cfg.clone();
    c.shape = Some(Shape::Chain);
    c.max_paths = None;
    gen_facts(rng, &c)
}
