#!/usr/bin/env python3
"""tools/eval_seeded.py <ID> [extra check ids...]

For every /tmp/wt/<ID>-out/mutN.diff produced by an independent sub-agent:
 1. confirm it in the scratch worktree /tmp/wt/<ID>: with the change `cargo test --offline --lib`
    passes (84) and tests/demoN.rs fails; without it demoN passes;
 2. apply it to /repo, run ./check <ID> quick (plus extra ids), undo it;
 3. keep it as /verif/seeded/<ID>-mN/{patch.diff, demo.rs, meta.json}.
Never commits anything in /repo.
"""
import json, os, re, shutil, subprocess, sys

ARGS = [a for a in sys.argv[1:] if not a.startswith("--")]
ROUND = next((int(a[len("--round"):]) for a in sys.argv[1:] if re.fullmatch(r"--round\d+", a)), 1)
ID = ARGS[0]
EXTRA = ARGS[1:]
BASE = "/tmp/wt" if ROUND == 1 else f"/tmp/wt{ROUND}"
OFFSET = 3 * (ROUND - 1)
WT = f"{BASE}/{ID}"
OUT = f"{BASE}/{ID}-out"
ENV = dict(os.environ, CARGO_NET_OFFLINE="true")
if os.environ.get("VERIF_EVAL_REPO"):
    ENV["VERIF_REPO"] = os.environ["VERIF_EVAL_REPO"]
REPO = os.environ.get("VERIF_EVAL_REPO", "/repo")  # tree the change is applied to (a scratch worktree when /repo is in use by a long run)
CHECK_ROOT = os.environ.get("VERIF_EVAL_ROOT", "/verif")  # where ./check is run from (a frozen snapshot for first evaluations)


def run(cmd, cwd, timeout=1800):
    p = subprocess.run(cmd, cwd=cwd, shell=True, capture_output=True, text=True, env=ENV, timeout=timeout)
    return p.returncode, p.stdout + p.stderr


def recheck():
    """--recheck: re-run the quick checks of the CURRENT /verif for the kept changes of this round
    (confirmation in the scratch worktree is not repeated); the first evaluation is kept in meta.json"""
    import glob
    for d in sorted(glob.glob(f"/verif/seeded/{ID}-m*")):
        meta = json.load(open(f"{d}/meta.json"))
        if meta.get("round") != ROUND:
            continue
        rc, o = run("git status --porcelain", REPO)
        if o.strip():
            print("   repo is dirty, aborting")
            sys.exit(2)
        rc, o = run(f"git apply {d}/patch.diff", REPO)
        if rc != 0:
            print(meta["id"], "cannot apply:", o[:200])
            continue
        checks = {}
        try:
            for cid in [ID] + EXTRA:
                rc, o = run(f"./check {cid} quick", CHECK_ROOT, timeout=3600)
                sigs = re.findall(r"signature: (\S+)", o)
                checks[cid] = {"exit": rc, "signatures": sigs[:8], "summary": (re.findall(rf"^{cid} quick:.*$", o, re.M) or [""])[0]}
        finally:
            run("git checkout -- .", REPO)
        if "first_evaluation" not in meta:
            meta["first_evaluation"] = {"evaluated_with": meta.get("evaluated_with"), "checks_quick": meta.get("checks_quick"), "caught_by": meta.get("caught_by")}
        meta["evaluated_with"] = CHECK_ROOT
        meta["checks_quick"] = checks
        meta["caught_by"] = [c for c, v in checks.items() if v["exit"] == 1]
        json.dump(meta, open(f"{d}/meta.json", "w"), indent=1)
        print(meta["id"], "first:", meta["first_evaluation"]["caught_by"], "now:", meta["caught_by"], checks[ID]["signatures"][:3])
        for f in os.listdir(f"{CHECK_ROOT}/replays"):
            if f.endswith(".json"):
                os.remove(f"{CHECK_ROOT}/replays/{f}")


def main():
    if "--recheck" in sys.argv:
        return recheck()
    notes = open(f"{OUT}/notes.md").read() if os.path.exists(f"{OUT}/notes.md") else ""
    muts = sorted(f for f in os.listdir(OUT) if re.fullmatch(r"mut\d+\.diff", f))
    for mf in muts:
        n = re.findall(r"\d+", mf)[0]
        demo = f"{OUT}/demo{n}.rs"
        tag = f"{ID}-m{int(n) + OFFSET}"
        res = {"id": tag, "round": ROUND, "evaluated_with": CHECK_ROOT, "property": ID, "source": "independent sub-agent, given only the property text and a scratch worktree"}
        if not os.path.exists(demo):
            print(tag, "SKIP: no demo")
            continue
        run("git checkout -- src", WT)
        shutil.copy(demo, f"{WT}/tests/demo{n}.rs")
        rc, o = run(f"git apply --check {OUT}/{mf}", WT)
        if rc != 0:
            print(tag, "SKIP: patch does not apply:", o[:200])
            continue
        run(f"git apply {OUT}/{mf}", WT)
        rc_lib, o_lib = run("cargo test --offline --lib 2>&1 | tail -5", WT)
        m = re.search(r"test result: (\w+)\. (\d+) passed; (\d+) failed", o_lib)
        lib_ok = bool(m and m.group(1) == "ok" and m.group(2) == "84")
        rc_demo_mut, o1 = run(f"cargo test --offline --test demo{n} 2>&1 | tail -15", WT)
        demo_fails_with = "test result: FAILED" in o1 or "panicked" in o1
        run("git checkout -- src", WT)
        rc_demo_clean, o2 = run(f"cargo test --offline --test demo{n} 2>&1 | tail -5", WT)
        demo_passes_without = "test result: ok" in o2
        res["confirmed"] = {"lib_tests_84_pass_with_change": lib_ok, "demo_fails_with_change": demo_fails_with, "demo_passes_without_change": demo_passes_without}
        ok = lib_ok and demo_fails_with and demo_passes_without
        print(tag, "confirm:", res["confirmed"])
        if not ok:
            print("   NOT KEPT", o_lib[-300:] if not lib_ok else "", o1[-300:] if not demo_fails_with else "", o2[-300:] if not demo_passes_without else "")
            continue
        # run the checks against /repo with the change applied
        rc, o = run("git status --porcelain", REPO)
        if o.strip():
            print("   /repo is dirty, aborting")
            sys.exit(2)
        rc, o = run(f"git apply {OUT}/{mf}", REPO)
        if rc != 0:
            print("   cannot apply to /repo:", o[:200])
            continue
        checks = {}
        try:
            for cid in [ID] + EXTRA:
                rc, o = run(f"./check {cid} quick", CHECK_ROOT, timeout=3600)
                sigs = re.findall(r"signature: (\S+)", o)
                checks[cid] = {"exit": rc, "signatures": sigs[:8], "summary": (re.findall(rf"^{cid} quick:.*$", o, re.M) or [""])[0]}
                print(f"   ./check {cid} quick -> exit {rc}", sigs[:4])
        finally:
            run("git checkout -- .", REPO)
        res["checks_quick"] = checks
        res["caught_by"] = [c for c, v in checks.items() if v["exit"] == 1]
        # notes section
        sec = re.search(rf"## mut{n}\b(.*?)(?=\n## mut\d|\Z)", notes, re.S)
        res["needs_to_manifest"] = sec.group(1).strip()[:1500] if sec else ""
        res["what_was_run"] = [
            f"in scratch worktree: git apply mut{n}.diff; cargo test --offline --lib (84 passed); cargo test --offline --test demo{n} (FAILED); git checkout -- src; cargo test --offline --test demo{n} (ok)",
            "git -C /repo apply patch.diff; ./check <id> quick; git -C /repo checkout -- .",
        ]
        d = f"/verif/seeded/{tag}"
        os.makedirs(d, exist_ok=True)
        shutil.copy(f"{OUT}/{mf}", f"{d}/patch.diff")
        shutil.copy(demo, f"{d}/demo.rs")
        json.dump(res, open(f"{d}/meta.json", "w"), indent=1)
        print("   kept as", d, "caught_by", res["caught_by"])
        # remove stale replay files produced by the seeded run
        for f in os.listdir("/verif/replays"):
            if f.endswith(".json"):
                os.remove(f"/verif/replays/{f}")


main()
