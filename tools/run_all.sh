#!/bin/bash
# tools/run_all.sh <quick|thorough> [seed...]   runs every claimed check, prints one line per check
TIER="${1:-quick}"; shift
SEEDS="${@:-1}"
cd "$(dirname "$0")/.."
for s in $SEEDS; do
  for id in $(python3 -c "import json;print(' '.join(c['property_id'] for c in json.load(open('MANIFEST.json'))['checks']))"); do
    out=$(VERIF_SEED=$s ./check $id $TIER 2>&1); rc=$?
    echo "seed=$s $id rc=$rc $(echo "$out" | grep -E "^$id $TIER:" | sed 's/^[^:]*: //')"
    if [ $rc -ne 0 ]; then echo "$out" | grep -E "VIOLATION|INCONCLUSIVE|signature|detail" | head -6; fi
  done
done
