#!/bin/bash
# tools/try_mutant.sh <patchfile|-e 'sed expr' file> -- <ID> [<ID>...]   applies a change to /repo, runs quick checks, reverts
set -u
cd /repo || exit 2
if [ "$1" = "-e" ]; then sed -i -E "$2" "$3"; shift 3; else git apply "$1" || exit 2; shift; fi
[ "$1" = "--" ] && shift
git -C /repo diff --stat | tail -1
for id in "$@"; do
  (cd /verif && VERIF_ROOT=/verif ./check "$id" quick 2>&1 | grep -E "VIOLATION|signature|detail|quick:|INCONCLUSIVE|KNOWN" | head -8)
done
git -C /repo checkout -- . 
