#!/usr/bin/env python3
"""Regenerates /verif/MANIFEST.json from the table below (kept valid at all times)."""
import json, os, sys
ROOT = os.path.dirname(os.path.dirname(os.path.abspath(__file__)))

CHECKS = {
 # id: (level, technique, level text, level note, design ref)
 "C01": ("exploration", "reference-model state monitor over 8 construction paths + all-pairs query oracle",
         "Observed parent/child/ancestor sets of every term and child_of/parent_of for all ordered pairs are compared with a naive BFS closure of the supplied edges on thousands of generated DAGs per run (every shape x id assignment in a fixed catalogue, then seeded random), through Builder, binary v1-v3, both text loaders, as_bytes round trip and sub_ontology. Held-on-observed-executions, not a proof; bounded to <=400 terms.",
         "trusts the harness' BFS model (self-audited by transposition each case) and its independent binary encoder / text renderer", "DESIGN.md §5 C01"),
 "C02": ("exploration", "reference-model state monitor (descendants x direct facts) over 8 construction paths",
         "Per-term gene/OMIM/ORPHA id sets, record direct-term sets, resolution of every handed-out id and absence of leaks between kinds (overlapping numeric ids) are compared with the model on every generated ontology, under every supply order incl. ancestor-first / descendant-first annotation orders.",
         "same trusted base as C01", "DESIGN.md §5 C02"),
 "C03": ("exploration", "formula oracle on observed counts + monotonicity monitor",
         "IC per kind is recomputed in f64 from the observed link counts and observed record totals for every term of every generated ontology; zero cases, finiteness, sign and ancestor->descendant monotonicity are asserted.",
         "tolerance 1e-6*max(1,|v|) for the f32 result", "DESIGN.md §5 C03"),
 "C19": ("exploration", "reference-model state monitor + missing-root fault cases",
         "Ontology::categories/modifier and per-term is_modifier/categories are compared with the model on branch-rich generated ontologies; the three missing-root variants are driven through six construction paths and must yield Err.",
         "same trusted base as C01", "DESIGN.md §5 C19"),
}

NOT_YET = {}

def main():
    props = [json.loads(l)["id"] for l in open(os.path.join(ROOT, "properties.jsonl"))]
    checks = []
    na = []
    for pid in props:
        if pid in CHECKS:
            level, tech, text, note, ref = CHECKS[pid]
            checks.append({
                "property_id": pid,
                "quick_cmd": f"./check {pid} quick",
                "thorough_cmd": f"./check {pid} thorough",
                "evidence_file": f"/verif/evidence/{pid}.json",
                "replay_cmd_template": f"./check {pid} --replay {{path}}",
                "engine": "hpo-verif",
                "level_claimed": {"category": level, "text": text, "design_ref": ref},
                "level_note": note,
                "technique": tech,
            })
        else:
            na.append({"property_id": pid, "reason": NOT_YET.get(pid, "monitor not built yet at this commit (planned, see DESIGN.md §5); not claimed until its check exists")})
    m = {
        "version": 1,
        "setup_cmd": "./setup.sh",
        "hooks": {
            "guard": "hpo_verif",
            "enable": "no hooks are compiled into /repo: every property is observed at the public API (RUSTFLAGS=--cfg hpo_verif is reserved)",
            "baseline_off_cmd": "cd /repo && cargo test --workspace --no-fail-fast --offline",
            "source_commits": [],
            "add_only": True,
        },
        "engines": [{
            "name": "hpo-verif",
            "path": "/verif/harness",
            "serves_properties": sorted(CHECKS.keys()),
            "kind_free_text": "Rust harness (path dependency on /repo, rebuilt by ./check on every invocation): hostile workload generators, reference models, observation walk of the whole read API under catch_unwind, history/trace checkers, fault injection; thorough tier adds Miri/ASan runs where hpo drives unsafe code in dependencies",
        }],
        "checks": checks,
        "notes": "exit 0 = held on everything explored (KNOWN-FINDING lines possible), 1 = VIOLATION, 2 = INCONCLUSIVE (build failure, watchdog, unreached mandatory bucket). VERIF_SEED is honoured.",
        "not_applicable": na,
    }
    json.dump(m, open(os.path.join(ROOT, "MANIFEST.json"), "w"), indent=1)
    print("MANIFEST.json written:", len(checks), "checks,", len(na), "not claimed")

main()
