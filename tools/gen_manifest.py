#!/usr/bin/env python3
"""Regenerates /verif/MANIFEST.json from the table below (kept valid at all times)."""
import json, os, sys
ROOT = os.path.dirname(os.path.dirname(os.path.abspath(__file__)))

CHECKS = {
 # id: (level, technique, level text, level note, design ref)
 "C01": ("exploration", "reference-model state monitor over 8 construction paths + all-pairs query oracle",
         "Observed parent/child/ancestor sets of every term and child_of/parent_of for all ordered pairs are compared with a naive BFS closure of the supplied edges on thousands of generated DAGs per run (every shape x id assignment in a fixed catalogue, then seeded random), through Builder, binary v1-v3, both text loaders, as_bytes round trip and sub_ontology, plus the complete HPO shipped as tests/ontology.hpo (19 484 terms). Held-on-observed-executions, not a proof; generated graphs are bounded to <=400 terms.",
         "trusts the harness' BFS model (self-audited by transposition each case) and its independent binary encoder / text renderer", "DESIGN.md §5 C01"),
 "C02": ("exploration", "reference-model state monitor (descendants x direct facts) over 8 construction paths",
         "Per-term gene/OMIM/ORPHA id sets, record direct-term sets, resolution of every handed-out id and absence of leaks between kinds (overlapping numeric ids) are compared with the model on every generated ontology, under every supply order incl. ancestor-first / descendant-first annotation orders.",
         "same trusted base as C01", "DESIGN.md §5 C02"),
 "C03": ("exploration", "formula oracle on observed counts + monotonicity monitor",
         "IC per kind is recomputed in f64 from the observed link counts and observed record totals for every term of every generated ontology; zero cases, finiteness, sign and ancestor->descendant monotonicity are asserted.",
         "tolerance 1e-6*max(1,|v|) for the f32 result", "DESIGN.md §5 C03"),
 "C19": ("exploration", "reference-model state monitor + missing-root fault cases",
         "Ontology::categories/modifier and per-term is_modifier/categories are compared with the model on branch-rich generated ontologies; the three missing-root variants are driven through six construction paths and must yield Err.",
         "same trusted base as C01", "DESIGN.md §5 C19"),
 "C04": ("exploration", "formula oracle (f64) on observed ancestor sets / IC / link sets for all ordered pairs x 8 algorithms x 3 kinds",
         "Every built-in similarity is evaluated for all ordered pairs of every generated ontology and compared with an independent f64 evaluation of its formula on the *observed* lower-layer values; finiteness, non-negativity, symmetry, the documented special cases, Builtins-vs-struct identity and dispatch by name are asserted.",
         "f32 vs f64 tolerance 1e-4*max(1,|v|); both readings of the contradictory all_union_ancestors docs accepted for GraphIC (one per run)", "DESIGN.md §5 C04"),
 "C11": ("exploration", "BFS distance oracle + edge-by-edge walk validation for all ordered pairs",
         "distance_to_ancestor, path_to_ancestor, distance_to_term and path_to_term are queried for all ordered pairs of every generated ontology (catalogue includes the 'ancestor with a shorter route over a higher common ancestor' pattern) and compared with BFS distances; every returned path is validated step by step against the supplied edges.",
         "chain count between two terms capped (library recursion is exponential in diamonds); path_to_term(a,a) not judged", "DESIGN.md §5 C11"),
 "C12": ("exploration", "operation-history monitor vs BTreeSet + exhaustive 6-id sub-space + set-algebra oracle on all term pairs",
         "HpoGroup insertion histories (return values, duplicates, sizes across the inline limit of 30), every constructor, |, &, + id, | id in all ownership variants are checked against a BTreeSet; all 4096 ordered subset pairs of a 6-id universe are enumerated in every run; ancestor queries and their iterator twins are compared with the set algebra of observed ancestor sets for all ordered pairs. Thorough adds Miri and ASan runs of the group histories (smallvec is the unsafe code underneath).",
         "all_union_ancestor_ids: both documented readings accepted, one per run", "DESIGN.md §5 C12"),
 "C05": ("exploration", "combiner model (f64) on injected user similarity matrices + call-log monitor of the caching adaptor",
         "All 169 matrix shapes r,c in 0..=12 with hostile contents are fed to the three combiners and the row/column iterators in every run; set pairs of sizes 0..12 are compared through HpoSet::similarity / GroupSimilarity with a seeded asymmetric user Similarity that logs its invocations, in both argument orders and through one shared CachedSimilarity.",
         "finite matrix values; 1e-4 relative tolerance for f32 results", "DESIGN.md §5 C05"),
 "C06": ("exploration", "enrichment event log checked online (pmf recurrence) and offline (exact rational Python checker)",
         "Every record returned by gene/OMIM/ORPHA enrichment is logged as (kind,N,K,n,k,count,p,fold) and compared with an independent f64 recurrence in-process and with exact integer arithmetic offline; result sets, counts, fold change, [0,1] range and monotonicity in k are asserted; populations below/at/above the 170-entry factorial table and the complete (N,K,n,k) lattice for N<=12 (quick) / 24 (thorough) are covered.",
         "samples are duplicate-free subsets of the background; python3 standard library only", "DESIGN.md §5 C06"),
 "C10": ("exploration", "complete key-space sweep per generated ontology against the set of added ids; naive substring model for name search",
         "For every generated term set (incl. two with more than 65 536 terms) Ontology::hpo is queried for all 10^7+1 ids plus sampled ids up to u32::MAX, on the Builder-made ontology and again on its binary round trip and on the same terms loaded from hp.obo; iteration/len, record lookups by id for present/absent/cross-kind ids, gene_by_name and the OMIM name searches are compared with the facts.",
         "exhaustive in the key dimension per ontology, ontologies sampled; ids >= 10^7 may be refused by a panic at insertion (outside the statement)", "DESIGN.md §5 C10"),
 "C20": ("exploration", "exhaustive id-space enumeration + totality monitor (catch_unwind) with a grammar oracle over enumerated and seeded strings",
         "Every id 0..10^7 and the u32 borders are rendered, parsed back and converted through bytes in every run (exhaustive for that half); try_from(&str) is driven with all 66430 strings of <=5 symbols over a 9-symbol alphabet incl. 2/3/4-byte characters, numeric borders and seeded longer strings under a panic monitor.",
         "a leading '+' is not judged; From<String>/PartialEq<&str> are documented to panic on malformed text and are exercised on valid renderings only", "DESIGN.md §5 C20"),
 "C07": ("exploration", "metamorphic round-trip monitor (observational identity through the whole read API + compare())",
         "Ontologies obtained through every public constructor (incl. obsolete/replaced terms, over-long and multi-byte names, empty sections, border ids) are walked, serialised, reloaded and walked again; the observations must be identical up to the documented 255-byte name trim, compare() must be empty, and a second generation must be stable.",
         "a reloaded name > 255 bytes may be any 252..255-byte prefix; replacement id 0 is not generated (the format encodes 'none' as 0)", "DESIGN.md §5 C07"),
 "C08": ("fault_enumeration", "independent codec calibrated on shipped v1/v2/v3 files + truncation at every byte offset, suffix and version-byte injection",
         "Per generated file (v1, v2, v3; two parent-record styles) every proper prefix, 28 suffixes and all other version bytes are fed to from_bytes and must be rejected; the intact file must decode to the model and be insensitive to record order. The encoder is tied to the real format by reproducing the three shipped files byte for byte in every run.",
         "rejection = Err or documented panic; 'HPO'+version byte 1 is not judged; files are sampled, offsets per file are exhaustive", "DESIGN.md §5 C08"),
 "C09": ("exploration", "reference-model + cross-path metamorphic monitor on rendered JAX directories",
         "Facts are rendered as hp.obo / phenotype.hpoa / gene files with shuffled stanzas and rows plus noise that must be ignored, loaded with both loaders and compared through the whole read API with the model and with the same facts through the v3 binary path and the Builder.",
         "files are rendered in the JAX shape only; records without terms cannot be expressed in text", "DESIGN.md §5 C09"),
 "C16": ("exploration", "permutation metamorphic monitor: 11 supply orders per FactSet and path family",
         "For each FactSet the Builder calls, binary records per section or text stanzas/rows are supplied in 11 orders (incl. reverse-topological, ancestor-first, descendant-first); all observations must equal the model and each other.",
         "one name per id, one replacement per term", "DESIGN.md §5 C16"),
 "C13": ("exploration", "model-predicate oracle over generated subsets + in-place/copying twin comparison",
         "On ontologies with obsolete, replaced and modifier terms every HpoSet operation is evaluated on ~12 subsets per ontology (empty, singleton, full, ancestor+descendant mixes, replacement collisions) and compared with predicates over the facts; each in-place operation is compared with its copying twin.",
         "replacement ids resolve in the same ontology", "DESIGN.md §5 C13"),
 "C14": ("exploration", "relational oracle of the sub-ontology against the source (BFS distances, induced links, annotation filter) + self-consistency walk",
         "For ~8 (root, leaves) requests per generated source ontology the result is checked relationally (any shortest chain is acceptable): acceptance iff leaves are below root, retained terms on shortest chains, copied term data, induced links, preserved leaf distances, the keep/drop rule for genes and diseases incl. annotations on modifier roots, and closure/inheritance/IC of the result against its own facts.",
         "chain count capped; release version of the result not judged", "DESIGN.md §5 C14"),
 "C15": ("exploration", "Builder call-history monitor: model applies only calls that returned Ok; panic monitor over the whole read API",
         "Random call histories over all typestates interleave failing and succeeding calls with absent ids adjacent to present ones; each call's Ok/Err is checked against presence of the referenced terms and the built ontology is walked under catch_unwind and compared with the model of the successful calls alone; every handed-out id must resolve.",
         "successful add_parent calls are acyclic", "DESIGN.md §5 C15"),
 "C17": ("exploration", "callback event log + dendrogram replay on a naive agglomerative model",
         "For all four linkage methods the distance callback's invocations are logged and the returned clusters are checked structurally (binary tree over the inputs, index discipline, sizes, leaf order) and replayed step by step against a naive model (closest pair, reported distance, update rule; for union every later callback invocation must mention exactly the united set); distances come in four ranges incl. negative ones, inputs include an empty set, identical sets and sets holding a term with its ancestor; ties stop exact comparison only.",
         "seeded symmetric distance; exact replay stops at the first tie (within 1e-6 relative)", "DESIGN.md §5 C17"),
 "C18": ("exploration", "model diff of two FactSets vs all Comparison / delta accessors, single-edit catalogue + mirror/self/round-trip metamorphic checks",
         "Pairs of ontologies that differ by exactly one edit of each of 12 kinds (every run) and by random edit bundles are compared; all twelve accessors and both delta types are checked against a model diff, the mirrored comparison against the mirrored model, self and round-trip comparisons must be empty.",
         "replacement ids resolve in both ontologies", "DESIGN.md §5 C18"),
}

NOT_YET = {}

def main():
    props = [json.loads(l)["id"] for l in open(os.path.join(ROOT, "properties.jsonl"))]
    checks = []
    na = []
    for pid in props:
        if pid in CHECKS:
            level, tech, text, note, ref = CHECKS[pid]
            checks.append({
                "property_id": pid,
                "quick_cmd": f"./check {pid} quick",
                "thorough_cmd": f"./check {pid} thorough",
                "evidence_file": f"/verif/evidence/{pid}.json",
                "replay_cmd_template": f"./check {pid} --replay {{path}}",
                "engine": "hpo-verif",
                "level_claimed": {"category": level, "text": text, "design_ref": ref},
                "level_note": note,
                "technique": tech,
            })
        else:
            na.append({"property_id": pid, "reason": NOT_YET.get(pid, "monitor not built yet at this commit (planned, see DESIGN.md §5); not claimed until its check exists")})
    m = {
        "version": 1,
        "setup_cmd": "./setup.sh",
        "hooks": {
            "guard": "hpo_verif",
            "enable": "no hooks are compiled into /repo: every property is observed at the public API (RUSTFLAGS=--cfg hpo_verif is reserved)",
            "baseline_off_cmd": "cd /repo && cargo test --workspace --no-fail-fast --offline",
            "source_commits": [],
            "add_only": True,
        },
        "engines": [{
            "name": "hpo-verif",
            "path": "/verif/harness",
            "serves_properties": sorted(CHECKS.keys()),
            "kind_free_text": "Rust harness (path dependency on /repo, rebuilt by ./check on every invocation): hostile workload generators, reference models, observation walk of the whole read API under catch_unwind, history/trace checkers, fault injection; thorough tier adds Miri/ASan runs where hpo drives unsafe code in dependencies",
        }],
        "checks": checks,
        "notes": "exit 0 = held on everything explored (KNOWN-FINDING lines possible), 1 = VIOLATION, 2 = INCONCLUSIVE (build failure, watchdog, unreached mandatory bucket). VERIF_SEED is honoured.",
        "not_applicable": na,
    }
    json.dump(m, open(os.path.join(ROOT, "MANIFEST.json"), "w"), indent=1)
    print("MANIFEST.json written:", len(checks), "checks,", len(na), "not claimed")

main()
