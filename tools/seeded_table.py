#!/usr/bin/env python3
"""Writes /verif/seeded/README.md: one row per seeded breaking change, from the meta.json files."""
import glob, json, os, re
ROOT = os.path.dirname(os.path.dirname(os.path.abspath(__file__)))
rows = []
for d in sorted(glob.glob(f"{ROOT}/seeded/C*-m*")):
    m = json.load(open(d + "/meta.json"))
    diff = open(d + "/patch.diff").read()
    files = sorted(set(l[6:] for l in diff.split("\n") if l.startswith("+++ b/")))
    need = re.sub(r"\s+", " ", m.get("needs_to_manifest", "")).strip()
    need = re.sub(r"[*`|]", "", need)
    if len(need) > 330:
        need = need[:330].rsplit(" ", 1)[0] + " …"
    sigs = []
    for c, v in m.get("checks_quick", {}).items():
        if v["exit"] == 1:
            sigs += v["signatures"][:2]
    allc = m.get("all_checks", {})
    others = sorted(c for c, v in allc.items() if v == 1 and c != m["property"])
    rows.append((m["id"], ", ".join(files), need, ", ".join(m["caught_by"]) or ("not judged (see history)" if m.get("not_judged") else "MISSED"), "; ".join(sigs[:2]), ", ".join(others), m.get("history", "")))
out = ["# Seeded breaking changes", "",
       "Each directory holds `patch.diff` (a change to /repo that still compiles and passes the 84 pinned tests), `demo.rs` (an integration test that fails with the change and passes without it) and `meta.json` (what it needs to manifest, what was run, which checks fire). All were written by independent sub-agents that saw only the property text and a scratch worktree (prompt: `AGENT_PROMPT.tmpl`), confirmed in a scratch worktree, then applied to /repo, checked with `./check <id> quick` and reverted. None is ever committed in /repo.", "",
       "| id | file(s) | what / trigger (from the author's notes) | caught by (quick) | first signatures | also caught by | history |", "|---|---|---|---|---|---|---|"]
for r in rows:
    out.append("| " + " | ".join(r) + " |")
open(f"{ROOT}/seeded/README.md", "w").write("\n".join(out) + "\n")
print(len(rows), "rows")
