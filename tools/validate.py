#!/usr/bin/env python3
import json, jsonschema, sys, glob, os
ROOT = os.path.dirname(os.path.dirname(os.path.abspath(__file__)))
jsonschema.validate(json.load(open(f'{ROOT}/MANIFEST.json')), json.load(open('/root/.vp/MANIFEST.schema.json')))
es = json.load(open('/root/.vp/EVIDENCE.schema.json'))
for f in sorted(glob.glob(f'{ROOT}/evidence/*.json')):
    jsonschema.validate(json.load(open(f)), es)
    print('ok', os.path.basename(f))
print('manifest ok')
