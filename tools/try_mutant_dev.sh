#!/bin/bash
# tools/try_mutant_dev.sh <seeded id> <check ids...>
# Like try_mutant.sh, but leaves /repo alone (for use while a long run reads /repo): the working
# tree of /verif is mirrored to /tmp/verif-dev, built against the scratch worktree /tmp/repo-eval,
# and the seeded change is applied there.
set -u
M="$1"; shift
[ -d /tmp/repo-eval ] || git -C /repo worktree add --detach /tmp/repo-eval HEAD >/dev/null
mkdir -p /tmp/verif-dev
rsync -a --delete --exclude 'harness/target*' --exclude work --exclude .git --exclude 'replays/*' --exclude evidence /verif/ /tmp/verif-dev/
mkdir -p /tmp/verif-dev/evidence /tmp/verif-dev/replays
sed -i 's#hpo = { path = "/repo" }#hpo = { path = "/tmp/repo-eval" }#' /tmp/verif-dev/harness/Cargo.toml
git -C /tmp/repo-eval checkout -- . 
if [ "$M" != none ]; then git -C /tmp/repo-eval apply "/verif/seeded/$M/patch.diff" || exit 2; fi
cd /tmp/verif-dev
for id in "$@"; do
  VERIF_REPO=/tmp/repo-eval ./check "$id" quick 2>&1 | grep -E "signature|VIOLATION|INCONCLUSIVE|KNOWN|quick:" | cut -c1-260 | head -12
done
git -C /tmp/repo-eval checkout -- .
