#!/usr/bin/env python3
"""tools/cross_matrix.py [ids...]   For every seeded change (or the given ids) apply it to /repo, run EVERY
claimed quick check, undo it, and store the exit codes in meta.json["all_checks"]. Never commits."""
import json, glob, os, re, subprocess, sys
ROOT = "/verif"
ENV = dict(os.environ, CARGO_NET_OFFLINE="true")
def run(cmd, cwd, timeout=3600):
    p = subprocess.run(cmd, cwd=cwd, shell=True, capture_output=True, text=True, env=ENV, timeout=timeout)
    return p.returncode, p.stdout + p.stderr
checks = [c["property_id"] for c in json.load(open(f"{ROOT}/MANIFEST.json"))["checks"]]
dirs = sorted(glob.glob(f"{ROOT}/seeded/C*-m*"))
if len(sys.argv) > 1:
    dirs = [d for d in dirs if os.path.basename(d) in sys.argv[1:]]
for d in dirs:
    m = json.load(open(d + "/meta.json"))
    if "all_checks" in m and "--force" not in sys.argv:
        continue
    rc, o = run("git status --porcelain", "/repo")
    if o.strip():
        print("/repo dirty, abort"); sys.exit(2)
    rc, o = run(f"git apply {d}/patch.diff", "/repo")
    if rc != 0:
        print(os.path.basename(d), "patch does not apply", o[:100]); continue
    res = {}
    try:
        for c in checks:
            rc, o = run(f"./check {c} quick", ROOT)
            res[c] = rc
    finally:
        run("git checkout -- .", "/repo")
    m["all_checks"] = res
    json.dump(m, open(d + "/meta.json", "w"), indent=1)
    print(os.path.basename(d), "caught by", [c for c, v in res.items() if v == 1], "inconclusive", [c for c, v in res.items() if v == 2], flush=True)
for f in glob.glob(f"{ROOT}/replays/*.json"):
    os.remove(f)
