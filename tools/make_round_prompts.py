#!/usr/bin/env python3
"""tools/make_round_prompts.py <round> : creates scratch worktrees /tmp/wt<round>/Cxx of /repo and
writes /tmp/wt<round>/Cxx-out/PROMPT.txt for the independent sub-agents of a seeding round.
The prompt holds the property text, the generic task (seeded/AGENT_PROMPT.tmpl) and short summaries
of the changes earlier agents produced for the same property (so that new ones differ).
Nothing else from /verif goes into it."""
import json, glob, os, re, subprocess, sys

ROUND = int(sys.argv[1])
BASE = f"/tmp/wt{ROUND}"
tmpl = open("/verif/seeded/AGENT_PROMPT.tmpl").read()
props = {}
for l in open("/verif/properties.jsonl"):
    p = json.loads(l)
    props[p["id"]] = p

def QO(p):
    q = p.get("quantified_over", p.get("quantifier", ""))
    return q.get("text", "") if isinstance(q, dict) else q


IDEAS = """Ideas that earlier rounds did NOT use up (take them as inspiration, not as a list to copy): behaviour that depends on
which public entry point / trait impl / overload is used (borrowed vs owned, iterator adaptors, Clone/Default/From impls, Display/Debug,
serialisation of parts of the data); on a second use of the same object (caches, memo fields, state left by an earlier call, clones);
on values at type boundaries (u8/u16/u32 limits of counts, lengths, distances, sums of two sizes); on numeric corner cases (underflow,
cancellation, exact zeros, negative or infinite user values, f32 vs f64); on unusual but legal file layouts (optional columns, tag order,
split or repeated records, white space, names that look like keywords); on rare graph shapes (very deep, very wide, shortcuts, several roots,
unusual id numbering relative to the hierarchy); on a particular construction path only; on two cooperating edits that each look harmless.
Also: trait impls nobody looks at (Hash / Eq / Ord / PartialEq between different types, Extend, FromIterator, IntoIterator for owned and
borrowed values, Default, Clone::clone_from, ExactSizeIterator / DoubleEndedIterator / size_hint of the crate's own iterators), file-based entry
points versus their in-memory twins, public `*_mut` accessors and setters used after construction, operations applied twice or in the
opposite order, inputs where two things that are usually different coincide (same id for a gene and a disease, same name for two records,
a term that is its own replacement, root == leaf, both arguments the same object).
Stay inside the property's quantifier: the violating input must be one the statement covers."""

ONLY = set(sys.argv[2:])  # optional: restrict the round to these property ids
for pid in sorted(props):
    if ONLY and pid not in ONLY:
        continue
    p = props[pid]
    wt = f"{BASE}/{pid}"
    out = f"{BASE}/{pid}-out"
    os.makedirs(out, exist_ok=True)
    if not os.path.isdir(wt):
        subprocess.run(["git", "-C", "/repo", "worktree", "add", "--detach", wt, "HEAD"], check=True, capture_output=True)
    prop_text = f"{pid}: {p.get('title','')}\n\nSTATEMENT: {p.get('statement','')}\n\nQUANTIFIED OVER: {QO(p)}\n"
    earlier = []
    for d in sorted(glob.glob(f"/verif/seeded/{pid}-m*"), key=lambda x: int(x.split("-m")[1])):
        m = json.load(open(d + "/meta.json"))
        txt = re.sub(r"\s+", " ", m.get("needs_to_manifest", ""))[:420]
        earlier.append(f" - {txt}")
    t = tmpl.replace("/tmp/wt/@ID@", f"{BASE}/{pid}").replace("@ID@", pid).replace("@PROP@", prop_text)
    marker = "YOUR TASK:"
    extra = (f"IMPORTANT - this is round {ROUND}. {len(earlier)} changes were already produced for this property by other people; do NOT repeat their "
             f"idea, code site + mechanism, or trigger condition. Their summaries:\n" + "\n".join(earlier) + "\n\n" + IDEAS + "\n\n")
    t = t.replace(marker, extra + marker, 1)
    open(out + "/PROMPT.txt", "w").write(t)
    print(pid, len(t))
