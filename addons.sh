#!/bin/bash
# addons.sh <ID> <base exit code>   sanitizer add-ons of the thorough tier (Miri, ASan).
# They re-run the part of the property's workload that reaches unsafe code in hpo's dependencies
# (smallvec behind HpoGroup, std) under an interpreter / sanitizer. A sanitizer REPORT is a violation;
# a tool that cannot run is recorded as "unavailable" and leaves the base verdict untouched.
set -u
ROOT="$(cd "$(dirname "$0")" && pwd)"
ID="$1"; RC="$2"
SEED="${VERIF_SEED:-1}"
WORK="$ROOT/work/addons-$ID-$$"
mkdir -p "$WORK"
RESULTS="$WORK/results.jsonl"; : > "$RESULTS"
VIOL=0
cd "$ROOT/harness" || exit "$RC"

miri_shards() { # kind shards count
  local kind="$1" shards="$2" count="$3" t0=$(date +%s)
  export MIRIFLAGS="-Zmiri-disable-isolation"
  if ! CARGO_TARGET_DIR="$ROOT/harness/target-miri" cargo +nightly miri run --offline --bin hpo-verif-lite -- "$kind" 0 0 "$SEED" >"$WORK/miri-$kind-build.log" 2>&1; then
    echo "{\"tool\":\"miri\",\"workload\":\"$kind\",\"status\":\"unavailable\",\"note\":\"miri build/run failed, see log\"}" >> "$RESULTS"; return
  fi
  local pids=()
  for s in $(seq 0 $((shards-1))); do
    ( CARGO_TARGET_DIR="$ROOT/harness/target-miri" timeout 3000 cargo +nightly miri run --offline --bin hpo-verif-lite -- "$kind" "$s" "$count" "$SEED" >"$WORK/miri-$kind-$s.log" 2>&1; echo $? > "$WORK/miri-$kind-$s.rc" ) &
    pids+=($!)
    # cargo serialises on the build lock only briefly; run up to 16 interpreters at once
  done
  wait "${pids[@]}"
  local ok=0 ub=0 lite_viol=0 other=0 checks=0
  for s in $(seq 0 $((shards-1))); do
    local rc=$(cat "$WORK/miri-$kind-$s.rc" 2>/dev/null || echo 99)
    if grep -q "Undefined Behavior\|error: unsupported operation\|data race" "$WORK/miri-$kind-$s.log"; then ub=$((ub+1));
    elif grep -q "^LITE VIOLATION" "$WORK/miri-$kind-$s.log"; then lite_viol=$((lite_viol+1));
    elif [ "$rc" = "0" ] && grep -q "^LITE ok" "$WORK/miri-$kind-$s.log"; then ok=$((ok+1)); c=$(grep "^LITE ok" "$WORK/miri-$kind-$s.log" | sed 's/.*checks=\([0-9]*\).*/\1/'); checks=$((checks+c));
    else other=$((other+1)); fi
  done
  local t1=$(date +%s)
  echo "{\"tool\":\"miri\",\"workload\":\"$kind\",\"status\":\"ran\",\"shards\":$shards,\"cases_per_shard\":$count,\"shards_clean\":$ok,\"shards_with_ub_report\":$ub,\"shards_with_oracle_violation\":$lite_viol,\"shards_timed_out_or_failed\":$other,\"oracle_checks_under_miri\":$checks,\"wall_s\":$((t1-t0))}" >> "$RESULTS"
  if [ $ub -gt 0 ] || [ $lite_viol -gt 0 ]; then
    mkdir -p "$ROOT/replays"; cat "$WORK"/miri-$kind-*.log > "$ROOT/replays/$ID-miri-$kind.log"
    echo "VIOLATION property=$ID replay=$ROOT/replays/$ID-miri-$kind.log"; VIOL=1
  fi
}

asan_run() { # limit
  local limit="$1" t0=$(date +%s)
  if ! CARGO_TARGET_DIR="$ROOT/harness/target-asan" RUSTFLAGS="-Zsanitizer=address -Cforce-frame-pointers=yes" cargo +nightly build --release --offline --target x86_64-unknown-linux-gnu >"$WORK/asan-build.log" 2>&1; then
    echo "{\"tool\":\"asan\",\"status\":\"unavailable\",\"note\":\"ASan build failed, see log\"}" >> "$RESULTS"; return
  fi
  mkdir -p "$WORK/asan-root"; cp "$ROOT/known_findings.json" "$WORK/asan-root/"; mkdir -p "$WORK/asan-root/oracles"; cp "$ROOT"/oracles/* "$WORK/asan-root/oracles/" 2>/dev/null
  VERIF_ROOT="$WORK/asan-root" VERIF_WORK="$WORK/asan-root/work" VERIF_LIMIT="$limit" ASAN_OPTIONS="detect_leaks=0:exitcode=66:abort_on_error=0" \
    "$ROOT/harness/target-asan/x86_64-unknown-linux-gnu/release/hpo-verif" run "$ID" quick >"$WORK/asan.log" 2>&1
  local rc=$? t1=$(date +%s)
  local reports=$(grep -c "ERROR: AddressSanitizer" "$WORK/asan.log")
  local summary=$(grep -E "^$ID quick:" "$WORK/asan.log" | head -1 | sed 's/"/\\"/g')
  echo "{\"tool\":\"asan\",\"workload\":\"$ID monitor, plan capped at $limit cases\",\"status\":\"ran\",\"exit\":$rc,\"asan_reports\":$reports,\"summary\":\"$summary\",\"wall_s\":$((t1-t0))}" >> "$RESULTS"
  if [ "$reports" -gt 0 ] || [ $rc -eq 66 ] || [ $rc -eq 1 ]; then
    mkdir -p "$ROOT/replays"; cp "$WORK/asan.log" "$ROOT/replays/$ID-asan.log"
    echo "VIOLATION property=$ID replay=$ROOT/replays/$ID-asan.log"; VIOL=1
  fi
}

case "$ID" in
  C12) miri_shards grp 16 6; asan_run 1500 ;;
  C20) miri_shards str 8 40 ;;
  C07) miri_shards rec 8 30; asan_run 300 ;;
  C08) miri_shards rec 8 30; asan_run 19 ;;
  *) rm -rf "$WORK"; exit "$RC" ;;
esac

# merge into the evidence file written by the base run
python3 - "$ROOT/evidence/$ID.json" "$RESULTS" <<'PY'
import json, sys
ev = json.load(open(sys.argv[1]))
rows = [json.loads(l) for l in open(sys.argv[2]) if l.strip()]
ev["coverage"]["sanitizer_addons"] = rows
json.dump(ev, open(sys.argv[1], "w"), indent=1)
print("sanitizer add-ons:", json.dumps(rows))
PY
rm -rf "$WORK"
if [ $VIOL -ne 0 ]; then exit 1; fi
exit "$RC"
