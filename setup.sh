#!/bin/bash
# offline build of the harness (MANIFEST.setup_cmd)
set -e
ROOT="$(cd "$(dirname "$0")" && pwd)"
export CARGO_NET_OFFLINE=true
mkdir -p "$ROOT/work" "$ROOT/evidence" "$ROOT/replays"
cd "$ROOT/harness"
[ -f Cargo.lock ] || cp /repo/Cargo.lock Cargo.lock
cargo build --release --offline
